SPECIFICATION Spec
CONSTANTS
  Nodes = {1, 2, 3, 4}
  InitPower <- P111x
  Accounts = {"a", "b"}
  Bodies <- BodiesB
  SigLists <- ListsB
  Replicas = {1, 2}
  MaxTx = 3
  MaxBlocks = 2
  DedupSigners = TRUE
  DirectOpen = FALSE
  QueryOpen = FALSE
  QueryTouches = FALSE
  Routes = {"contract", "direct", "static"}
  TallyOnly = FALSE
VIEW view
CONSTRAINT Viable
INVARIANTS TypeOK CountedOnce UniformApplication
PROPERTIES ChangeOnlyIfAuthorised ChangeAtEndBlockOnly ReplayChangesNothing NoSideChannel OutcomeFromBlockAlone
CHECK_DEADLOCK FALSE
