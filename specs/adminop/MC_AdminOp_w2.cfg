SPECIFICATION SpecFast
CONSTANTS
  Nodes = {1, 2, 3, 4}
  InitPower <- P3111
  Accounts = {"a", "b"}
  Bodies <- BodiesM
  SigLists <- ListsM
  Replicas = {1, 2}
  MaxTx = 2
  MaxBlocks = 2
  DedupSigners = TRUE
  DirectOpen = FALSE
  QueryOpen = FALSE
  QueryTouches = FALSE
  Routes = {"contract", "direct"}
  TallyOnly = FALSE
VIEW view
CONSTRAINT Viable
INVARIANTS TypeOK CountedOnce UniformApplication
PROPERTIES ChangeOnlyIfAuthorised ChangeAtEndBlockOnly ReplayChangesNothing NoSideChannel OutcomeFromBlockAlone
CHECK_DEADLOCK FALSE
