------------------------------- MODULE Sim_AdminOp -------------------------------
EXTENDS MC_AdminOp

\* ---- scheduler for random simulation (tlc -simulate picks uniformly among successor states, and almost all
\* successors are rejected transactions): first draw the KIND of the next action, then an action of that kind.
\* SimNext only restricts NextFast (plus stuttering), so every AdminOp property is checked on these behaviours too.
VARIABLE kind
Kinds == {"txgood", "tx", "resend", "close", "exec", "query", "querygood"}
Bound(b) == b.n = nonce[b.addr]          \* bound to the account's current nonce: acceptable if well signed
SimInit == Init /\ kind = "none"
SimNext ==
  \/ /\ kind = "none" /\ kind' \in Kinds /\ UNCHANGED vars
  \/ /\ kind # "none" /\ kind' = "none" /\ UNCHANGED vars
  \/ /\ kind = "txgood" /\ kind' = "none"
     /\ \E b \in Bodies, sl \in SigLists : Bound(b) /\ Tx(b, sl, "contract", b.addr, Result(vals, nonce, b, sl, "contract", b.addr))
  \/ /\ kind = "tx" /\ kind' = "none"
     /\ \E b \in Bodies, sl \in SigLists, route \in {"contract", "direct"}, snd \in Accounts :
           Tx(b, sl, route, snd, Result(vals, nonce, b, sl, route, snd))
  \/ /\ kind = "resend" /\ kind' = "none" /\ \E snd \in Accounts : Resend(snd)
  \/ /\ kind = "close" /\ kind' = "none" /\ CloseBlock
  \/ /\ kind = "exec" /\ kind' = "none" /\ \E r \in Replicas, out \in {"ok", "endBlockError"} : Exec(r, out)
  \/ /\ kind \in {"query", "querygood"} /\ kind' = "none"
     /\ \E r \in Replicas, b \in Bodies, sl \in SigLists, snd \in Accounts :
           /\ rep[r].h > 0
           /\ kind = "querygood" => (snd = b.addr /\ b.n = chain[rep[r].h].nonce[b.addr])
           /\ Query(r, b, sl, snd, IF QueryOpen THEN Result(rep[r].vals, chain[rep[r].h].nonce, b, sl, "contract", snd) ELSE "rejQuery")
SpecSim == SimInit /\ [][SimNext]_<<vars, kind>>
=================================================================================
