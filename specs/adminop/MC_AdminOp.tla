------------------------------- MODULE MC_AdminOp -------------------------------
EXTENDS AdminOp

\* ---- power distributions (index = node id)
P111x == <<1, 1, 1, -1>>        \* three validators, node 4 outside
P1120 == <<1, 1, 2, 0>>         \* node 3 heavier, node 4 a member without power
P2120 == <<2, 1, 2, 0>>         \* total 5 (= 2 mod 3): exactly 3 of 5 is NOT more than 2/3; node 4 without power
P3111 == <<3, 1, 1, 1>>         \* node 1 holds half
P1111 == <<1, 1, 1, 1>>

\* ---- signature entries / lists
E(k, s)  == [k |-> k, s |-> s]
Entries  == [k : {"ok", "wrong", "garbage"}, s : Nodes]
SeqsUpTo(n) == UNION { [1..m -> Entries] : m \in 0..n }
AllLists3 == SeqsUpTo(3)
OkEntries == [k : {"ok"}, s : Nodes]
\* length-4 lists of genuine signatures (all repetition patterns) plus everything up to 3
AllLists4 == SeqsUpTo(3) \cup [1..4 -> OkEntries]

ListsQ == { <<E("ok",1), E("ok",2), E("ok",3)>>,        \* everyone
            <<E("ok",1), E("ok",2)>>,                   \* exactly 2/3 with P111x: not enough
            <<E("ok",1), E("ok",2), E("ok",2)>>,        \* a repeated signer
            <<E("ok",1), E("ok",2), E("wrong",3)>> }    \* third signature over another message

ListsM == ListsQ \cup
          { <<>>,
            <<E("ok",3), E("ok",3), E("ok",3)>>,
            <<E("ok",1), E("ok",2), E("ok",4)>>,        \* padded with an outsider / powerless member
            <<E("ok",1), E("ok",2), E("garbage",3)>>,
            <<E("ok",3), E("ok",1)>>,
            <<E("ok",2), E("ok",3), E("ok",4)>>,
            <<E("ok",1), E("ok",2), E("ok",3), E("ok",4)>> }

\* ---- request bodies
B(cmd, tgt, pw, addr, n) == [cmd |-> cmd, tgt |-> tgt, pw |-> pw, addr |-> addr, n |-> n, ct |-> "ok", self |-> "ok"]

BodiesQ == { B("update", 2, 2, "a", 0),
             B("add",    4, 0, "a", 0),
             B("remove", 3, 0, "b", 0),
             B("remove", 3, 0, "b", 1),              \* with the previous one in the same block: EndBlock fails
             B("update", 2, 1, "b", 0) }

BodiesM == { B(c, t, p, a, n) : c \in {"add", "update", "remove"}, t \in {2, 4}, p \in {0, 2}, a \in {"a", "b"}, n \in {0, 1} }
           \cup { B("bogus", 2, 2, "a", 0),
                  [B("update", 2, 2, "a", 0) EXCEPT !.ct = "bad"],
                  [B("add", 4, 0, "a", 0) EXCEPT !.self = "bad"],
                  [B("add", 4, 2, "b", 0) EXCEPT !.self = "bad"],
                  B("remove", 3, 0, "b", 0), B("remove", 1, 0, "a", 0), B("remove", 1, 0, "a", 1) }

\* second graph configuration (with P2120: total power 5, nodes 1 and 3 heavy, node 4 a member without power)
BodiesG == { B("update", 4, 2, "a", 0), B("update", 3, 1, "b", 0), B("remove", 4, 0, "b", 0), B("add", 4, 0, "a", 0),
             B("bogus", 2, 2, "a", 0), [B("update", 2, 2, "b", 0) EXCEPT !.ct = "bad"] }
ListsG  == { <<E("ok",1), E("ok",2), E("ok",3)>>,
             <<E("ok",3), E("ok",1)>>,                       \* 4 of 5
             <<E("ok",1), E("ok",2), E("ok",4)>>,            \* exactly 3 of 5 (the boundary) plus a powerless member
             <<E("ok",3), E("ok",3)>>,                       \* the heavy validator twice
             <<E("ok",3), E("garbage",1), E("wrong",2)>> }


\* batch configuration: several accepted changes in ONE block (a membership change followed by a power change), then a
\* request carried by a single signer or by one signer twice - sub-quorum under the set that results
BodiesB == { B("add",    4, 0, "a", 0), B("remove", 3, 0, "a", 0),
             B("update", 2, 2, "b", 0),
             B("update", 1, 2, "a", 1), B("update", 1, 2, "b", 1) }
ListsB  == { <<E("ok",1), E("ok",2), E("ok",3)>>,
             <<E("ok",1)>>,
             <<E("ok",2), E("ok",2)>> }

\* a smaller body set for random simulation of longer behaviours
BodiesS == { B("update", 2, 2, "a", 0), B("update", 2, 2, "a", 1), B("update", 2, 0, "b", 0), B("update", 2, 1, "b", 1),
             B("add", 4, 0, "a", 0), B("add", 4, 2, "a", 1), B("add", 4, 0, "b", 0),
             [B("add", 4, 0, "b", 1) EXCEPT !.self = "bad"],
             B("update", 4, 2, "a", 1), B("update", 4, 1, "b", 1), B("update", 4, 2, "a", 2),
             B("remove", 3, 0, "b", 0), B("remove", 3, 0, "b", 1), B("remove", 3, 0, "a", 1), B("remove", 4, 0, "a", 2),
             B("bogus", 2, 2, "a", 0), [B("update", 2, 2, "b", 0) EXCEPT !.ct = "bad"] }

=================================================================================
