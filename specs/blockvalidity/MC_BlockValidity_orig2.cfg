SPECIFICATION Spec
CONSTANTS
  Configs <- HistoryConfigs
  JudgeBy = "next"
  CheckVHash = TRUE
VIEW view
INVARIANTS TypeOK CodeEqualsDecl AcceptImpliesLinked AcceptImpliesQuorumOfDistinctGoodSigners AcceptImpliesEverySlotVerifies VerifyCommitSound VerifyCommitEverySlotVerifies HeightOneEmptyCommit TamperAnyFieldRejected
CHECK_DEADLOCK FALSE
