------------------------------ MODULE BlockValidity ------------------------------
(* C02 - what a node accepts as "the next block".                                               *)
(*                                                                                              *)
(* One abstract block proposed on top of a chain whose last committed height is Last.           *)
(* The adversary (a Byzantine proposer holding every validator key it needs for the class at    *)
(* hand) starts from the block an honest proposer would build (Good) and tampers with it:       *)
(* TamperField / TamperSlot, at most MaxMal malformations, in a canonical order (positions      *)
(* ascending) so that every malformed block is reached exactly once.  The calls of the code:    *)
(*   CallValidateBlock(r)  ConsensusState.ValidateBlock   gemmill/consensus/pbft/state.go       *)
(*   CallValidateBasic(r)  Block.ValidateBasic            gemmill/types/block.go                *)
(*   CallVerifyCommit(r)   ValidatorSet.VerifyCommit on block.LastCommit   types/validator_set.go *)
(* are each TRANSCRIBED from the code in program order (r = name of the first failing check,    *)
(* "ok" = nil error).  Decl is the property-level definition of a valid block, written without  *)
(* looking at the code.  TLC compares the two over the whole malformation space                 *)
(* (CodeEqualsDecl) and checks the one-directional consequences C02 is about.                   *)
(*                                                                                              *)
(* As found, the code differed from Decl in four places (all repaired, see KNOWN_FINDINGS):     *)
(* Header.ValidatorsHash was compared with nothing (CheckVHash = FALSE models that), a nil      *)
(* Header/Data/LastCommit and a commit holding only nil slots made the checks panic, and        *)
(* VerifyCommit did not compare ValidatorIndex / ValidatorAddress of a precommit (which are not *)
(* signed) with its slot ("relabelled" votes counted; repaired under C13).                      *)
(* Oddities kept as they are: block time is not checked (TODO in the code); ProposerAddress may *)
(* be any validator, not the round's proposer; Commit.BlockID is only required to be non-zero.  *)
EXTENDS Integers, FiniteSets, Sequences, TLC

CONSTANTS
  Configs,     \* set of configurations explored in one run; a configuration is a record
               \*   [id, n, power, last, maxMal, maxHdr, classes, hist, npower, ntotal, nsize]:
               \*   n validators of height `last` (slots 1..n, address order) with voting powers power[1..n];
               \*   last = height of the last committed block (0 = genesis: the block under test is block 1);
               \*   at most maxMal simultaneous malformations, at most maxHdr of them outside the commit slots;
               \*   classes = the slot classes the adversary may use in this configuration;
               \*   hist = the validator change block `last` itself carries (none | lower | raise | add | remove):
               \*   the set of height last+1 gives the validator of slot k the power npower[k] (0 = removed),
               \*   has nsize members and ntotal power.  The LastCommit of block last+1 is signed by, and must be
               \*   judged against, the set of height `last` (state.LastValidators), whatever the next set is.
  JudgeBy,     \* "last": the commit is verified against the set of height Last (state.LastValidators as ExecBlock
               \* leaves it: a copy taken before EndBlock changes the next set).  "next" = LastValidators aliasing the
               \* changed set: used only by the engine's second sanity run, which must violate CodeEqualsDecl.
  CheckVHash   \* TRUE: ValidateBlock compares Header.ValidatorsHash with state.Validators.Hash()
               \* (the code since the C02 repair).  FALSE = the code as found: used only by the
               \* engine's sanity run, which must make TLC report CodeEqualsDecl violated.

VARIABLES
  c,     \* the configuration (constant along a behaviour)
  blk,   \* the abstract block
  m,     \* derived: <<number of malformations, ... outside the slots, highest tampered position>>
  out,   \* derived: <<ValidateBlock(blk), ValidateBasic(blk), VerifyCommit(blk)>>, computed once per block
  res    \* output only: reply of the last call

N      == c.n
Power  == c.power
Last   == c.last
MaxMal == c.maxMal
MaxHdr == c.maxHdr
Val == 1..N
(* the set VerifyCommit is handed *)
NJ     == IF JudgeBy = "last" THEN N ELSE c.nsize
PW(k)  == IF JudgeBy = "last" THEN Power[k] ELSE c.npower[k]

(* ---------------------------------------------------------------------------------------- *)
(* The abstract block.                                                                        *)

FieldSeq == << "nilp", "chain", "height", "ntx", "lbid", "data", "app", "rcpt", "vhash", "time",
               "lch", "cbid", "csize", "prop" >>
NF == Len(FieldSeq)

CsizeVals == IF Last = 0 THEN {"ok", "long", "full"}            \* 0 | 1 | N precommits
                        ELSE {"ok", "short", "long", "empty"}  \* N | N-1 | N+1 | 0 precommits

FieldValsC ==
  [ nilp   |-> {"none", "header", "data", "commit"},   \* a nil *Header / *Data / *Commit survives go-wire
    chain  |-> {"ok", "wrong"},
    height |-> {"ok", "same", "skip", "zero", "neg"},  \* Last+1 | Last | Last+2 | 0 | -1
    ntx    |-> {"ok", "wrong"},                        \* NumTxs vs len(Data.Txs)+len(Data.ExTxs)
    lbid   |-> {"ok", "hash", "parts"},                \* LastBlockID: hash wrong | parts header wrong
    data   |-> {"ok", "wrong"},                        \* DataHash vs hash of the Data carried
    app    |-> {"ok", "wrong"},
    rcpt   |-> {"ok", "wrong"},
    vhash  |-> {"ok", "wrong"},                        \* ValidatorsHash vs hash(validators of this height)
    time   |-> {"ok", "wrong"},                        \* not after the previous block's time
    lch    |-> {"ok", "wrong"},                        \* LastCommitHash vs hash of the LastCommit carried
    cbid   |-> {"ok", "zero", "other"},                \* Commit.BlockID (not covered by any hash)
    csize  |-> {"ok", "short", "long", "empty", "full"},
    prop   |-> {"proposer", "validator", "outsider"} ] \* ProposerAddress

FieldVals(f) == IF f = "csize" THEN CsizeVals ELSE FieldValsC[f]

SlotClasses ==
  { "good",        \* precommit of validator i for the previous block, height Last, round R, signed by i
    "missing",     \* nil
    "nilvote",     \* valid precommit of i for nil
    "wrongHeight", \* valid precommit of i for the block, other height (all such slots: the same height)
    "wrongRound",  \* valid precommit of i for the block, round R' # R (all such slots: the same R')
    "wrongType",   \* valid PREVOTE of i for the block
    "badSig",      \* labelled i, signature does not verify under any validator key
    "otherBlock",  \* valid precommit of i for another block id
    "signedByOther",    \* labelled i, validly signed by validator Other(i)
    "duplicateOfOther", \* the good vote OF validator Other(i) (its labels, its signature) copied into slot i
    "relabelled",  \* signed by i, but ValidatorIndex/ValidatorAddress do not name i (labels are not signed)
    \* votes that do NOT count for the block and whose signature does not verify either: a commit carrying one
    \* does not "re-verify signature by signature" although its tally is untouched
    "nilBadSig",               \* precommit for nil labelled i, right height/round, signature verifies under no key
    "otherBlockBadSig",        \* precommit for another block id labelled i, signature verifies under no key
    "nilSignedByOther",        \* precommit for nil labelled i, validly signed by validator Other(i)
    "otherBlockSignedByOther" }\* precommit for another block id labelled i, validly signed by validator Other(i)

Other(i) == (i % N) + 1

Hgt(cl) == IF cl = "wrongHeight" THEN "wrong" ELSE "ok"
Rnd(cl) == IF cl = "wrongRound" THEN 1 ELSE 0
Typ(cl) == IF cl = "wrongType" THEN "pv" ELSE "pc"
Blk(cl) == CASE cl \in {"nilvote", "nilBadSig", "nilSignedByOther"} -> "nil"
            [] cl \in {"otherBlock", "otherBlockBadSig", "otherBlockSignedByOther"} -> "other"
            [] OTHER -> "B"
SigOK(cl) == cl \notin {"badSig", "signedByOther", "duplicateOfOther", "nilBadSig", "otherBlockBadSig",
                        "nilSignedByOther", "otherBlockSignedByOther"}   \* verifies under the SLOT's key
LabelOK(cl) == cl \notin {"duplicateOfOther", "relabelled"}            \* index and address are the slot's
(* the validator whose key produced the signature (0 = nobody) *)
Signer(i, cl) == CASE cl \in {"signedByOther", "duplicateOfOther", "nilSignedByOther", "otherBlockSignedByOther"} -> Other(i)
                  [] cl \in {"badSig", "nilBadSig", "otherBlockBadSig"} -> 0
                  [] OTHER -> i

Good == [ nilp |-> "none", chain |-> "ok", height |-> "ok", ntx |-> "ok", lbid |-> "ok", data |-> "ok",
          app |-> "ok", rcpt |-> "ok", vhash |-> "ok", time |-> "ok", lch |-> "ok", cbid |-> "ok",
          csize |-> "ok", prop |-> "proposer", slots |-> [i \in Val |-> "good"] ]

vars == <<c, blk, m, out, res>>
view == <<c, blk>>

(* positions: header fields 1..NF, then slots NF+1..NF+N *)
TamperedFields(b) == {k \in 1..NF : b[FieldSeq[k]] # Good[FieldSeq[k]]}
TamperedSlots(b)  == {i \in Val : b.slots[i] # "good"}
TamperedPos(b)    == TamperedFields(b) \cup {NF + i : i \in TamperedSlots(b)}
NumMal(b)         == Cardinality(TamperedPos(b))

(* ---------------------------------------------------------------------------------------- *)
(* The commit as carried: sequence of slot classes.                                           *)

Size(b) == CASE b.csize = "ok"    -> IF Last = 0 THEN 0 ELSE N
             [] b.csize = "short" -> N - 1
             [] b.csize = "long"  -> IF Last = 0 THEN 1 ELSE N + 1
             [] b.csize = "empty" -> 0
             [] b.csize = "full"  -> N

(* slot N+1 of an over-long commit is one more copy of a good vote *)
SlotSeq(b) == [k \in 1..Size(b) |-> IF k <= N THEN b.slots[k] ELSE "good"]

Present(s)  == {k \in 1..Len(s) : s[k] # "missing"}
MinOf(S)    == CHOOSE x \in S : \A y \in S : x <= y
First(s)    == MinOf(Present(s))

PowerOf(S) == LET RECURSIVE P(_)
                  P(T) == IF T = {} THEN 0 ELSE LET x == CHOOSE y \in T : TRUE IN Power[x] + P(T \ {x})
              IN P(S)
PowerJ(S)  == LET RECURSIVE P(_)
                  P(T) == IF T = {} THEN 0 ELSE LET x == CHOOSE y \in T : TRUE IN PW(x) + P(T \ {x})
              IN P(S)
Total == PowerOf(Val)
TotalJ == IF JudgeBy = "last" THEN Total ELSE c.ntotal

(* ---------------------------------------------------------------------------------------- *)
(* TRANSCRIBED: Block.ValidateBasic (block.go)                                                *)
ValidateBasic(b) ==
  IF b.nilp # "none"        THEN "nilPart"        \* missing header / data / last commit
  ELSE IF b.chain # "ok"    THEN "chainID"
  ELSE IF b.height # "ok"   THEN "height"
  ELSE IF b.ntx # "ok"      THEN "numTxs"
  ELSE IF b.lbid # "ok"     THEN "lastBlockID"
  ELSE IF b.data # "ok"     THEN "dataHash"
  ELSE IF b.app # "ok"      THEN "appHash"
  ELSE IF b.rcpt # "ok"     THEN "receiptsHash"
  ELSE "ok"                                       \* Time: the check is commented out in the code

(* TRANSCRIBED: Commit.ValidateBasic (block.go); height/round are those of the first non-nil precommit *)
CommitValidateBasic(b) ==
  LET s == SlotSeq(b) IN
  IF b.cbid = "zero"        THEN "commitNilBlock"
  ELSE IF Len(s) = 0        THEN "commitEmpty"
  ELSE IF Present(s) = {}   THEN "commitEmpty"
  ELSE LET f   == First(s)
           bad == {k \in Present(s) : Typ(s[k]) # "pc" \/ Hgt(s[k]) # Hgt(s[f]) \/ Rnd(s[k]) # Rnd(s[f])}
       IN IF bad = {} THEN "ok"
          ELSE LET k == MinOf(bad)
               IN IF Typ(s[k]) # "pc" THEN "commitType"
                  ELSE IF Hgt(s[k]) # Hgt(s[f]) THEN "commitHeight"
                  ELSE "commitRound"

(* TRANSCRIBED: Block.ValidateCommit (block.go) *)
ValidateCommit(b) ==
  IF b.lch # "ok" THEN "lastCommitHash"
  ELSE IF Last # 0 THEN CommitValidateBasic(b)     \* b.Header.Height != 1, the height being right here
  ELSE "ok"

(* TRANSCRIBED: ValidatorSet.VerifyCommit(chainID, state.LastBlockID, Last, block.LastCommit) *)
VerifyCommit(b) ==
  LET s == SlotSeq(b) IN
  IF b.nilp = "commit"      THEN "vcNilCommit"
  ELSE IF Len(s) # NJ       THEN "vcSize"
  ELSE IF Present(s) = {}   THEN "vcHeight"        \* commit.Height() = 0 # Last
  ELSE IF Hgt(s[First(s)]) # "ok" THEN "vcHeight"  \* height != commit.Height()
  ELSE LET r0  == Rnd(s[First(s)])
           bad == {k \in Present(s) : Hgt(s[k]) # "ok" \/ Rnd(s[k]) # r0 \/ Typ(s[k]) # "pc" \/ ~LabelOK(s[k]) \/ ~SigOK(s[k])}
       IN IF bad # {}
            THEN LET k == MinOf(bad)
                 IN IF Hgt(s[k]) # "ok" THEN "vcSlotHeight"
                    ELSE IF Rnd(s[k]) # r0 THEN "vcRound"
                    ELSE IF Typ(s[k]) # "pc" THEN "vcType"
                    ELSE IF ~LabelOK(s[k]) THEN "vcLabel"
                    ELSE "vcSig"
            ELSE LET tally == PowerJ({k \in Present(s) : Blk(s[k]) = "B"})
                 IN IF tally > (TotalJ * 2) \div 3 THEN "ok" ELSE "vcPower"

(* TRANSCRIBED: ConsensusState.ValidateBlock (pbft/state.go) *)
ValidateBlock(b) ==
  LET vb == ValidateBasic(b) IN
  IF vb # "ok" THEN vb
  ELSE IF CheckVHash /\ b.vhash # "ok" THEN "validatorsHash"
  ELSE LET vcm == ValidateCommit(b) IN
       IF vcm # "ok" THEN vcm
       ELSE IF b.prop = "outsider" THEN "proposer"
       ELSE IF Last = 0
              THEN IF Size(b) # 0 THEN "h1Precommits" ELSE "ok"
              ELSE IF Size(b) # NJ THEN "commitSize"
                   ELSE VerifyCommit(b)

Accept(b) == ValidateBlock(b) = "ok"

(* ---------------------------------------------------------------------------------------- *)
(* DECLARATIVE: the block C02 allows an honest node to commit.                                *)

Links(b)       == b.chain = "ok" /\ b.height = "ok" /\ b.lbid = "ok" /\ b.app = "ok" /\ b.rcpt = "ok"
Commitments(b) == b.data = "ok" /\ b.lch = "ok" /\ b.vhash = "ok" /\ b.ntx = "ok"
WellFormed(b)  == b.nilp = "none" /\ b.prop # "outsider"

(* a vote that validator k really cast as a precommit of height Last *)
Authentic(cl) == Typ(cl) = "pc" /\ Hgt(cl) = "ok" /\ SigOK(cl) /\ LabelOK(cl)

DeclCommit(b) ==
  LET s == SlotSeq(b) IN
  IF Last = 0 THEN Len(s) = 0
  ELSE /\ Len(s) = N
       /\ b.cbid # "zero"
       /\ \A k \in Present(s) : Authentic(s[k])                     \* every signature carried verifies
       /\ Cardinality({Rnd(s[k]) : k \in Present(s)}) <= 1           \* one single round
       /\ 3 * PowerOf({k \in Present(s) : Blk(s[k]) = "B"}) > 2 * Total  \* more than 2/3 for exactly this block

Decl(b) == Links(b) /\ Commitments(b) /\ WellFormed(b) /\ DeclCommit(b)

(* ---------------------------------------------------------------------------------------- *)
(* Behaviours *)

Outs(b) == <<ValidateBlock(b), ValidateBasic(b), VerifyCommit(b)>>

MaxOf(S) == IF S = {} THEN 0 ELSE CHOOSE x \in S : \A y \in S : y <= x
MetaOf(b) == <<NumMal(b), Cardinality(TamperedFields(b)), MaxOf(TamperedPos(b))>>
PosOf(f)  == CHOOSE k \in 1..NF : FieldSeq[k] = f

Init == c \in Configs /\ blk = Good /\ m = <<0, 0, 0>> /\ out = Outs(Good) /\ res = <<"init">>

TamperField(f, v) ==
  /\ m[1] < MaxMal
  /\ m[2] < MaxHdr
  /\ m[3] < PosOf(f)
  /\ v # Good[f]
  /\ v \in FieldVals(f)
  /\ blk' = [blk EXCEPT ![f] = v]
  /\ m' = <<m[1] + 1, m[2] + 1, PosOf(f)>>
  /\ out' = Outs(blk')
  /\ UNCHANGED <<c, res>>

TamperSlot(i, cl) ==
  /\ Last > 0                                   \* block 1 carries no precommits to tamper with
  /\ i <= N
  /\ cl \in c.classes
  /\ m[1] < MaxMal
  /\ m[3] < NF + i
  /\ blk' = [blk EXCEPT !.slots[i] = cl]
  /\ m' = <<m[1] + 1, m[2], NF + i>>
  /\ out' = Outs(blk')
  /\ UNCHANGED <<c, res>>

(* the three calls of the code; the reply is an argument so that every edge of the state graph carries it *)
CallValidateBlock(r) ==
  /\ r = out[1]
  /\ res' = <<"ValidateBlock", r>>
  /\ UNCHANGED <<c, blk, m, out>>

CallValidateBasic(r) ==
  /\ r = out[2]
  /\ res' = <<"ValidateBasic", r>>
  /\ UNCHANGED <<c, blk, m, out>>

CallVerifyCommit(r) ==
  /\ Last > 0
  /\ r = out[3]
  /\ res' = <<"VerifyCommit", r>>
  /\ UNCHANGED <<c, blk, m, out>>

Results == {"ok", "nilPart", "chainID", "height", "numTxs", "lastBlockID", "dataHash", "appHash", "receiptsHash",
            "validatorsHash", "lastCommitHash", "commitNilBlock", "commitEmpty", "commitType", "commitHeight",
            "commitRound", "proposer", "h1Precommits", "commitSize", "vcNilCommit", "vcSize", "vcHeight",
            "vcSlotHeight", "vcRound", "vcType", "vcLabel", "vcSig", "vcPower"}

TamperPairs == UNION {{<<FieldSeq[k], v>> : v \in FieldValsC[FieldSeq[k]]} : k \in 1..NF}
MaxN        == 5

Next ==
  \/ \E p \in TamperPairs : TamperField(p[1], p[2])
  \/ \E i \in 1..MaxN, cl \in SlotClasses \ {"good"} : TamperSlot(i, cl)
  \/ \E r \in Results : CallValidateBlock(r)
  \/ \E r \in Results : CallValidateBasic(r)
  \/ \E r \in Results : CallVerifyCommit(r)

Spec == Init /\ [][Next]_vars

(* ---------------------------------------------------------------------------------------- *)
(* Properties (C02) *)

TypeOK ==
  /\ \A k \in 1..NF : blk[FieldSeq[k]] \in FieldVals(FieldSeq[k])
  /\ blk.slots \in [Val -> SlotClasses]
  /\ out = Outs(blk) /\ \A k \in 1..3 : out[k] \in Results
  /\ m = MetaOf(blk)

(* TypeOK ties out to blk, so the reply computed once per block is the one the invariants speak about *)
Accepted == out[1] = "ok"

(* the code's logic and the property-level definition accept exactly the same blocks *)
CodeEqualsDecl == Accepted <=> Decl(blk)

(* accepted => the header extends the prior state and every commitment equals the hash of its object *)
AcceptImpliesLinked == Accepted => Links(blk) /\ Commitments(blk) /\ WellFormed(blk)

(* accepted => in ONE round, DISTINCT validators holding > 2/3 of the power each really signed a
   precommit of height Last for exactly the previous block.  Signers are counted as a SET of
   validators (by the key that produced the signature), not per slot. *)
GoodSignersIn(b, r) ==
  LET s == SlotSeq(b)
  IN {v \in Val : \E k \in Present(s) : /\ k <= N /\ Signer(k, s[k]) = v
                                          /\ Typ(s[k]) = "pc" /\ Hgt(s[k]) = "ok"
                                          /\ Blk(s[k]) = "B" /\ Rnd(s[k]) = r}
AcceptImpliesQuorumOfDistinctGoodSigners ==
  (Accepted /\ Last > 0) =>
     \E r \in {0, 1} : /\ 3 * PowerOf(GoodSignersIn(blk, r)) > 2 * Total
                       /\ \A k \in Present(SlotSeq(blk)) : Rnd(SlotSeq(blk)[k]) = r

(* ... and every slot that is filled holds a vote that the slot's own validator signed *)
AcceptImpliesEverySlotVerifies ==
  (Accepted /\ Last > 0) => \A k \in Present(SlotSeq(blk)) : Authentic(SlotSeq(blk)[k]) /\ Signer(k, SlotSeq(blk)[k]) = k

(* VerifyCommit on its own (fast sync uses it without ValidateBlock) is sound as well *)
VerifyCommitSound ==
  (out[3] = "ok" /\ Last > 0) =>
     \E r \in {0, 1} : 3 * PowerOf(GoodSignersIn(blk, r)) > 2 * Total

(* a commit that VerifyCommit accepts re-verifies slot by slot: EVERY vote it carries - counted for the block or
   not (nil votes, votes for other blocks) - is signed by and labelled with the validator of its slot *)
VerifyCommitEverySlotVerifies ==
  (out[3] = "ok" /\ Last > 0) => \A k \in Present(SlotSeq(blk)) : Authentic(SlotSeq(blk)[k]) /\ Signer(k, SlotSeq(blk)[k]) = k

(* the first block carries an empty commit *)
HeightOneEmptyCommit == (Last = 0 /\ Accepted) => Size(blk) = 0

(* from a block that is valid, tampering with any single protected field, or replacing any
   counted precommit such that the quorum is lost, is rejected *)
Protected == {"nilp", "chain", "height", "ntx", "lbid", "data", "app", "rcpt", "vhash", "lch", "csize"}
TamperAnyFieldRejected ==
  Decl(blk) =>
    /\ \A f \in Protected : \A v \in FieldVals(f) \ {Good[f]} :
          blk[f] = Good[f] => ~Accept([blk EXCEPT ![f] = v])
    /\ ~Accept([blk EXCEPT !.prop = "outsider"])
    /\ ~Accept([blk EXCEPT !.cbid = "zero"]) \/ Last = 0
    /\ Last > 0 =>
         \A i \in Val : \A cl \in {"wrongHeight", "wrongType", "badSig", "signedByOther", "duplicateOfOther", "relabelled",
                                     "nilBadSig", "otherBlockBadSig", "nilSignedByOther", "otherBlockSignedByOther"} :
            ~Accept([blk EXCEPT !.slots[i] = cl])

==================================================================================
