SPECIFICATION Spec
CONSTANTS
  Configs <- SanityConfigs
  JudgeBy = "last"
  CheckVHash = FALSE
VIEW view
INVARIANTS TypeOK CodeEqualsDecl AcceptImpliesLinked AcceptImpliesQuorumOfDistinctGoodSigners AcceptImpliesEverySlotVerifies VerifyCommitSound VerifyCommitEverySlotVerifies HeightOneEmptyCommit TamperAnyFieldRejected
CHECK_DEADLOCK FALSE
