---------------------------- MODULE MC_BlockValidity ----------------------------
EXTENDS BlockValidity

SumSeq(q) == LET RECURSIVE S(_)
                 S(k) == IF k = 0 THEN 0 ELSE q[k] + S(k - 1)
             IN S(Len(q))

(* nextra = power of validators of the next set that have no slot in the commit (an added validator) *)
CfgH(id, power, last, maxMal, maxHdr, classes, hist, npower, nextra) ==
  [id |-> id, n |-> Len(power), power |-> power, last |-> last, maxMal |-> maxMal, maxHdr |-> maxHdr, classes |-> classes,
   hist |-> hist, npower |-> npower, ntotal |-> SumSeq(npower) + nextra,
   nsize |-> Cardinality({k \in 1..Len(npower) : npower[k] > 0}) + (IF nextra > 0 THEN 1 ELSE 0)]

Cfg(id, power, last, maxMal, maxHdr, classes) == CfgH(id, power, last, maxMal, maxHdr, classes, "none", power, 0)

All  == SlotClasses
Core == SlotClasses \ {"nilSignedByOther", "otherBlockSignedByOther"}

(* Power sets: the TOTAL is == 2 (mod 3) in q (8), s3 (5), p2 (2), v5 (5), s4 (8) - there floor(2T/3) and
   2*floor(T/3) differ, so a threshold computed as T/3*2+1 is wrong - and == 0 / 1 in the others.  Every set is
   explored down to the boundary tallies (largest power that is NOT > 2/3, smallest that is): s3, p2, s4, s4e are
   full products over the slots, q / v5 / n4 reach the boundary with one or two missing slots. *)
(* <= 2 malformations anywhere (3 and 4 validators, unequal powers); block 1; every commit over 3 and 2 slots;
   five equal validators with <= 2 bad slots *)
Q2  == Cfg("q",  <<3, 3, 2>>,    2, 2, 2, All)
H1  == Cfg("h1", <<2, 2, 2, 1>>, 0, 3, 3, All)
S3  == Cfg("s3", <<1, 2, 2>>,    1, 3, 0, Core)
N4  == Cfg("n4", <<2, 2, 2, 1>>, 2, 2, 2, All)
P2  == Cfg("p2", <<1, 1>>,       1, 2, 0, All)
V5  == Cfg("v5", <<1, 1, 1, 1, 1>>, 1, 2, 0, Core)
(* validator-set histories: block `last` changes the set of height last+1 (the driver's application does it in
   EndBlock like plugin.AdminOp.updateValidators); the commit for block `last` is still the old set's business *)
Few == {"missing", "nilvote", "otherBlock", "badSig"}
VL  == CfgH("vl", <<7, 1, 1, 1>>, 1, 3, 0, Few, "lower",  <<1, 1, 1, 1>>, 0)
VR  == CfgH("vr", <<2, 2, 2, 1>>, 1, 3, 0, Few, "raise",  <<2, 2, 2, 7>>, 0)
VA  == CfgH("va", <<2, 2, 2, 1>>, 1, 3, 0, Few, "add",    <<2, 2, 2, 1>>, 1)
VM  == CfgH("vm", <<2, 2, 2, 1>>, 1, 3, 0, Few, "remove", <<2, 2, 2, 0>>, 0)
(* every commit over 4 slots (13^4), unequal powers; <= 3 bad slots of 4, equal powers; <= 3 malformations anywhere;
   totals 4 and 6 *)
S4  == Cfg("s4",  <<3, 2, 2, 1>>, 2, 4, 0, Core)
S4E == Cfg("s4e", <<1, 1, 1, 1>>, 1, 3, 0, All)
M3  == Cfg("m3",  <<2, 2, 3>>,    1, 3, 3, Core)
Q4  == Cfg("q4",  <<1, 1, 2>>,    2, 2, 2, All)
S6  == Cfg("s6",  <<1, 2, 3>>,    1, 3, 0, Core)
(* sanity run *)
O1  == Cfg("o1",  <<1, 1, 2>>,    2, 1, 1, All)

QuickConfigs    == {Q2, H1, S3, N4, P2, V5, VL, VR, VA, VM}
ThoroughConfigs == {S4, S4E, M3, Q4, S6}
SanityConfigs   == {O1}
HistoryConfigs  == {VL, VR, VA, VM}
=================================================================================
