---------------------------- MODULE MC_BlockValidity ----------------------------
EXTENDS BlockValidity

Cfg(id, power, last, maxMal, maxHdr, classes) ==
  [id |-> id, n |-> Len(power), power |-> power, last |-> last, maxMal |-> maxMal, maxHdr |-> maxHdr, classes |-> classes]

All  == SlotClasses
Core == SlotClasses \ {"nilSignedByOther", "otherBlockSignedByOther"}

(* <= 2 malformations anywhere (3 and 4 validators, unequal powers); block 1; every commit over 3 slots (15^3) *)
Q2  == Cfg("q",  <<1, 1, 2>>,    2, 2, 2, All)
H1  == Cfg("h1", <<2, 2, 2, 1>>, 0, 3, 3, All)
S3  == Cfg("s3", <<1, 2, 3>>,    1, 3, 0, All)
N4  == Cfg("n4", <<2, 2, 2, 1>>, 2, 2, 2, All)
(* every commit over 4 slots (13^4), unequal powers; <= 3 bad slots of 4, equal powers; <= 3 malformations anywhere *)
S4  == Cfg("s4",  <<3, 2, 2, 1>>, 2, 4, 0, Core)
S4E == Cfg("s4e", <<1, 1, 1, 1>>, 1, 3, 0, All)
M3  == Cfg("m3",  <<2, 2, 3>>,    1, 3, 3, Core)
(* sanity run *)
O1  == Cfg("o1",  <<1, 1, 2>>,    2, 1, 1, All)

QuickConfigs    == {Q2, H1, S3, N4}
ThoroughConfigs == {S4, S4E, M3}
SanityConfigs   == {O1}
=================================================================================
