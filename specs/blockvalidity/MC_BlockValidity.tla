---------------------------- MODULE MC_BlockValidity ----------------------------
EXTENDS BlockValidity

Cfg(id, power, last, maxMal, maxHdr) ==
  [id |-> id, n |-> Len(power), power |-> power, last |-> last, maxMal |-> maxMal, maxHdr |-> maxHdr]

(* <= 2 malformations anywhere (3 and 4 validators, unequal powers); block 1; every commit over 3 slots *)
Q2  == Cfg("q",  <<1, 1, 2>>,    2, 2, 2)
H1  == Cfg("h1", <<2, 2, 2, 1>>, 0, 3, 3)
S3  == Cfg("s3", <<1, 2, 3>>,    1, 3, 0)
N4  == Cfg("n4", <<2, 2, 2, 1>>, 2, 2, 2)
(* every commit over 4 slots (11^4), unequal and equal powers; <= 3 malformations anywhere *)
S4  == Cfg("s4",  <<3, 2, 2, 1>>, 2, 4, 0)
S4E == Cfg("s4e", <<1, 1, 1, 1>>, 1, 4, 0)
M3  == Cfg("m3",  <<2, 2, 3>>,    1, 3, 3)
(* sanity run *)
O1  == Cfg("o1",  <<1, 1, 2>>,    2, 1, 1)

QuickConfigs    == {Q2, H1, S3, N4}
ThoroughConfigs == {S4, S4E, M3}
SanityConfigs   == {O1}
=================================================================================
