SPECIFICATION Spec
CONSTANTS
  Configs <- QuickConfigs
  JudgeBy = "last"
  CheckVHash = TRUE
VIEW view
INVARIANTS TypeOK CodeEqualsDecl AcceptImpliesLinked AcceptImpliesQuorumOfDistinctGoodSigners AcceptImpliesEverySlotVerifies VerifyCommitSound VerifyCommitEverySlotVerifies HeightOneEmptyCommit TamperAnyFieldRejected
CHECK_DEADLOCK FALSE
