SPECIFICATION Spec
CONSTANTS
  N = 4
  Power <- P1111
  Blocks = {"nil", "A", "B"}
  Peers = {"p1", "p2"}
  MaxRound = 3
  MaxSteps = 9
VIEW view
INVARIANTS TypeOK TrackedRoundsExist CatchupBounded VotesOnlyInExisting
PROPERTIES AcceptedIsCounted RejectNoChange Maj23Stable NoCrossCounting
CHECK_DEADLOCK FALSE
