SPECIFICATION Spec
CONSTANTS
  N = 2
  Power <- P12
  Blocks = {"nil", "A"}
  Peers = {"p1", "p2"}
  MaxRound = 2
  MaxSteps = 5
VIEW view
INVARIANTS TypeOK TrackedRoundsExist CatchupBounded VotesOnlyInExisting
PROPERTIES AcceptedIsCounted RejectNoChange Maj23Stable NoCrossCounting
CHECK_DEADLOCK FALSE
