---------------------------- MODULE HeightVoteSet ----------------------------
(***************************************************************************)
(* gemmill/consensus/pbft/height_vote_set.go: the vote sets of one height,  *)
(* rounds 0..round plus at most two "catch-up" rounds per peer (a vote for  *)
(* a round the node has not reached opens that round, charged to the peer   *)
(* that delivered it; only a vote that passes validation may open one).     *)
(* One action per public call, the reply class is an argument.  The inner   *)
(* VoteSet is abstracted to "first vote of each validator per round/type"   *)
(* (conflicts, peer claims and commits are VoteSet.tla's subject); what is   *)
(* stated here is the routing: a vote reported as added is counted in the   *)
(* set of ITS round and type, majorities are per round and type, refused    *)
(* votes change nothing, the number of rounds a peer can open is bounded.   *)
(* Part of C15.                                                             *)
(***************************************************************************)
EXTENDS Integers, Sequences, FiniteSets, TLC

CONSTANTS N,          \* validators 1..N
          Power,      \* [1..N -> Nat]
          Blocks,     \* block names, "nil" included
          Peers,      \* peer keys ("" = the node itself is modelled as one more peer: the code treats it alike)
          MaxRound,   \* votes carry rounds 0..MaxRound
          MaxSteps

VARIABLES round,      \* hvs.round
          exists,     \* rounds that have vote sets
          votes,      \* [round -> [type -> [validator -> block or "none"]]] for existing rounds (others all "none")
          catch,      \* [peer -> sequence of the catch-up rounds it opened]
          steps, res

vars == <<round, exists, votes, catch, steps, res>>
Val == 1..N
Types == {"pv", "pc"}
Rounds == 0..MaxRound
Total == LET RECURSIVE S(_) S(X) == IF X = {} THEN 0 ELSE LET x == CHOOSE y \in X : TRUE IN Power[x] + S(X \ {x}) IN S(Val)
Sum(X) == LET RECURSIVE S(_) S(Y) == IF Y = {} THEN 0 ELSE LET x == CHOOSE y \in Y : TRUE IN Power[x] + S(Y \ {x}) IN S(X)

Empty == [t \in Types |-> [i \in Val |-> "none"]]

Init == /\ round = 0 /\ exists = {0}
        /\ votes = [r \in Rounds |-> Empty]
        /\ catch = [p \in Peers |-> <<>>]
        /\ steps = 0 /\ res = [op |-> "init"]

\* the reply of AddVote(vote{r, ty, i, b}, peer p); cls = "ok" | "bad" (signature / index / address fail in VoteSet.AddVote)
Reply(p, r, ty, i, b, cls) ==
  IF r \notin exists
    THEN IF Len(catch[p]) < 2 THEN (IF cls = "ok" THEN "added" ELSE "err") ELSE "ignored"
    ELSE IF cls # "ok" THEN "err"
         ELSE IF votes[r][ty][i] = "none" THEN "added"
         ELSE IF votes[r][ty][i] = b THEN "dup" ELSE "conflict"

AddVote(p, r, ty, i, b, cls, rep) ==
  /\ steps < MaxSteps
  /\ rep = Reply(p, r, ty, i, b, cls)
  /\ IF rep = "added"
       THEN /\ votes' = [votes EXCEPT ![r][ty][i] = b]
            /\ exists' = exists \cup {r}
            /\ catch' = IF r \notin exists THEN [catch EXCEPT ![p] = Append(@, r)] ELSE catch
       ELSE UNCHANGED <<votes, exists, catch>>
  /\ steps' = steps + 1
  /\ res' = [op |-> "AddVote", rep |-> rep, r |-> r, ty |-> ty, i |-> i, b |-> b]
  /\ UNCHANGED round

\* SetRound(r): the consensus state moves to round r (enterNewRound); rounds round+1..r get vote sets unless a peer opened them
SetRound(r) ==
  /\ steps < MaxSteps
  /\ r \in Rounds /\ (round = 0 \/ r >= round + 1)
  /\ r >= round
  /\ exists' = exists \cup ((round + 1)..r)
  /\ round' = r
  /\ steps' = steps + 1
  /\ res' = [op |-> "SetRound", r |-> r]
  /\ UNCHANGED <<votes, catch>>

Next == \/ \E p \in Peers, r \in Rounds, ty \in Types, i \in Val, b \in Blocks, cls \in {"ok", "bad"},
              rep \in {"added", "err", "ignored", "dup", "conflict"} : AddVote(p, r, ty, i, b, cls, rep)
        \/ \E r \in Rounds : SetRound(r)

Spec == Init /\ [][Next]_vars

-----------------------------------------------------------------------------
Maj23(r, ty, b) == 3 * Sum({i \in Val : votes[r][ty][i] = b}) > 2 * Total
HasMaj(r, ty)   == \E b \in Blocks : Maj23(r, ty, b)
\* POLInfo(): the last round <= round with +2/3 prevotes for one block (or nil), -1 if none
POLRound == LET S == {r \in 0..round : r \in exists /\ HasMaj(r, "pv")} IN IF S = {} THEN -1 ELSE CHOOSE r \in S : \A q \in S : q <= r

TypeOK == /\ round \in Rounds /\ exists \subseteq Rounds
          /\ \A p \in Peers : Len(catch[p]) <= 2

\* every round up to the current one has vote sets
TrackedRoundsExist == (0..round) \subseteq exists
\* rounds beyond the current one exist only because some peer opened them, at most two per peer
CatchupBounded == \A r \in exists : r > round => \E p \in Peers : \E k \in 1..Len(catch[p]) : catch[p][k] = r
\* votes are held only in rounds that exist
VotesOnlyInExisting == \A r \in Rounds : r \notin exists => votes[r] = Empty
\* a vote reported as added is counted in the set of its own round and type
AcceptedIsCounted == [][res'.op = "AddVote" /\ res'.rep = "added" => votes'[res'.r][res'.ty][res'.i] = res'.b]_vars
\* a vote that is not added changes nothing (also not the peer's allowance)
RejectNoChange == [][res'.op = "AddVote" /\ res'.rep # "added" => UNCHANGED <<round, exists, votes, catch>>]_vars
\* a reported majority stays (first votes are never replaced here)
Maj23Stable == [][\A r \in Rounds, ty \in Types, b \in Blocks : Maj23(r, ty, b) => Maj23(r, ty, b)']_vars
\* votes of one round/type never count for another
NoCrossCounting == [][res'.op = "AddVote" => \A r \in Rounds, ty \in Types : (r # res'.r \/ ty # res'.ty) => votes'[r][ty] = votes[r][ty]]_vars

view == <<round, exists, votes, catch, steps>>
=============================================================================
