SPECIFICATION Spec
CONSTANTS
  R <- R2
  MaxLog = 2
  MaxCrash = 1
  MaxLead = 2
  MaxSnap = 1
  Install = TRUE
  SnapGuard = TRUE
INVARIANTS TypeOK RestartSucceeds NoAnomaly AppliedOnceInOrder Agreement HeightsAgree NoBlockLost
PROPERTIES ProposalOnApplied
CHECK_DEADLOCK FALSE
