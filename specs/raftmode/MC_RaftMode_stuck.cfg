SPECIFICATION Spec
CONSTANTS
  R <- R2
  MaxLog = 2
  MaxCrash = 0
  MaxLead = 3
  MaxSnap = 0
  Install = FALSE
  SnapGuard = TRUE
INVARIANTS TypeOK RestartSucceeds NoAnomaly AppliedOnceInOrder Agreement HeightsAgree NoBlockLost LeaderNotStuck
PROPERTIES ProposalOnApplied
CHECK_DEADLOCK FALSE
