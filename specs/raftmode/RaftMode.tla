------------------------------ MODULE RaftMode ------------------------------
(***************************************************************************)
(* The RAFT consensus mode of an AnnChain node, as implemented in           *)
(* gemmill/consensus/raft/{fsm.go,state.go,snapshot.go} and wired by        *)
(* gemmill/angine.go (assembleStateMachine, completeInterruptedCommit,      *)
(* RecoverFromCrash) and gemmill/blockchain/reactor.go (the "XXX HACK"      *)
(* height adjustment on the block store object the FSM shares).             *)
(*                                                                         *)
(* hashicorp/raft itself is NOT modelled: it is replaced by what it         *)
(* guarantees to its FSMs -- one totally ordered sequence `log` of          *)
(* committed command entries, delivered to every FSM in order, each entry   *)
(* at most once per incarnation of the process, and again from the last     *)
(* snapshot index (or from the beginning) after a restart.  Only the        *)
(* current leader appends.  A proposal that never commits (leadership lost, *)
(* ErrNotLeader, entry truncated) simply never appears in `log`.            *)
(*                                                                         *)
(* An entry is an encoded block.  Its identity is its index in `log`; the   *)
(* spec keeps of it what the code looks at: Height, LastBlockID (`par`,     *)
(* the id of the block it was built on; 0 = genesis) and the proposer.      *)
(*                                                                         *)
(* BlockChainFSM.Apply is split at its durable writes (failpoints of        *)
(* gemmill/verifhook in go-db / ethdb), in program order:                   *)
(*   decode; [SnapGuard, repair efcd2d7] store height < height of the       *)
(*   restored snapshot -> entry skipped ("behind");                         *)
(*   `blockStore.Height()+1 != block.Height` -> "found dup block"           *)
(*   W_Items    SaveBlock: H:h P:h:* C:h-1 SC:h        (invisible)          *)
(*   W_Desc     SaveBlock: blockStore descriptor        (store height = h)  *)
(*              ApplyBlock on a state copy: validateBlock (raft's           *)
(*              ConsensusState.ValidateBlock against fsm.state); an invalid *)
(*              block returns the error -- AFTER the block was stored       *)
(*   W_Inter    SaveIntermediate (stateIntermediateKey)                     *)
(*   W_AppLast  the application's commit (trie batches, receipts,           *)
(*              lastreceipts are invisible until `lastblock` is written)    *)
(*   W_StSave   stateCopy.Save() (stateKey); b.state = stateCopy;           *)
(*              onUpdateState                                               *)
(*   Hand       b.appliedCh <- block (unbuffered: Apply -- and with it the  *)
(*              raft FSM goroutine -- blocks until ConsensusState.run takes *)
(*              it)                                                         *)
(* Crash(r) may strike between any two of them; Restart(r) is the restart   *)
(* path of the real node (LoadState, NewBlockStore, completeInterrupted-    *)
(* Commit, the reactor's height adjustment, RecoverFromCrash) followed by   *)
(* raft restoring its newest snapshot into the FSM (Restore keeps only the  *)
(* height it records -- nothing at all before the repair) and delivering    *)
(* the log again from the snapshot index.                                   *)
(*                                                                         *)
(* ConsensusState.run (started by the SwitchToConsensus event):             *)
(*   top:       Follower -> select { <-appliedCh ; 1 s }                    *)
(*              Leader   -> createProposalBlock (reaps the mempool, waits   *)
(*                          for transactions or empty_block_interval, THEN  *)
(*                          reads fsm.state), sign, rawRaft.Apply(data),    *)
(*                          then  <-appliedCh  (ANY applied block)          *)
(***************************************************************************)
EXTENDS Integers, Sequences, FiniteSets, TLC

CONSTANTS R,         \* replicas
          MaxLog,    \* number of entries the leaders append in one behaviour
          MaxCrash,  \* crashes in one behaviour
          MaxLead,   \* elections in one behaviour
          MaxSnap,   \* snapshots taken in one behaviour
          Install,   \* TRUE: a follower may receive the leader's snapshot instead of log entries
          SnapGuard  \* TRUE: the repaired FSM (Restore remembers the snapshot's height, Apply drops entries while the
                     \* block store is below it); FALSE: the code before the repair (Restore discards the snapshot)

VARIABLES
  log,      \* committed entries: [h, par, by]
  leader,   \* current raft leader (0 = none)
  \* ---------------- durable, per replica
  items,    \* [height -> id]: block whose meta/parts/commit records are stored under that height (0 none)
  desc,     \* block store descriptor (BlockStoreStateJSON.Height)
  inter,    \* stateIntermediateKey: [h, blk, base] (base = application root the state had before)
  app,      \* application: sequence of block ids executed and committed (`lastblock` record)
  stk,      \* stateKey: [h, last, root]
  snap,     \* index of the newest raft snapshot the replica holds (taken by itself or installed by the leader)
  snapH,    \* block height recorded in it (BlockChainSnapshot.Height)
  \* ---------------- volatile, per replica
  up,
  mStore,   \* BlockStore.height in memory
  mState,   \* fsm.state (= Angine.stateMachine)
  pc,       \* "idle" | position inside Apply | "down" | "panic"
  cur,      \* entry being applied
  dl,       \* next entry raft delivers
  loop,     \* ConsensusState.run: "off" | "top" | "creating" | "wait"
  minH,     \* height of the snapshot raft restored into the FSM last (0: none)
  \* ---------------- history
  crashes, nlead, nsnap,
  readable, \* [height -> id]: block that became readable at that height first
  gap,      \* replica received a snapshot in place of entries
  anom      \* "none" | "invalid" (ApplyBlock refused a stored block) | "skip" (a block that is no duplicate was dropped)

durable  == <<items, desc, inter, app, stk, snap, snapH>>
volatile == <<up, mStore, mState, pc, cur, dl, loop, minH>>
hist     == <<crashes, nlead, nsnap, readable, gap, anom>>
vars     == <<log, leader, durable, volatile, hist>>

Heights == 1..MaxLog
Genesis == [h |-> 0, last |-> 0, root |-> <<>>]
NoInter == [h |-> 0, blk |-> 0, base |-> <<>>]

IsPrefix(a, b) == Len(a) <= Len(b) /\ \A k \in 1..Len(a) : a[k] = b[k]

Init ==
  /\ log = <<>> /\ leader = 0
  /\ items = [r \in R |-> [h \in Heights |-> 0]]
  /\ desc = [r \in R |-> 0]
  /\ inter = [r \in R |-> NoInter]
  /\ app = [r \in R |-> <<>>]
  /\ stk = [r \in R |-> Genesis]          \* getOrMakeState saves the genesis state at the first start
  /\ snap = [r \in R |-> 0] /\ snapH = [r \in R |-> 0] /\ minH = [r \in R |-> 0]
  /\ up = [r \in R |-> TRUE]
  /\ mStore = [r \in R |-> 0]
  /\ mState = [r \in R |-> Genesis]
  /\ pc = [r \in R |-> "idle"]
  /\ cur = [r \in R |-> 0]
  /\ dl = [r \in R |-> 1]
  /\ loop = [r \in R |-> "top"]
  /\ crashes = 0 /\ nlead = 0 /\ nsnap = 0
  /\ readable = [r \in R |-> [h \in Heights |-> 0]]
  /\ gap = [r \in R |-> FALSE]
  /\ anom = [r \in R |-> "none"]

----------------------------------------------------------------------------
(* raft: elections *)
Elect(r) ==
  /\ up[r] /\ leader # r /\ nlead < MaxLead
  /\ leader' = r /\ nlead' = nlead + 1
  /\ UNCHANGED <<log, durable, volatile, crashes, nsnap, readable, gap, anom>>

----------------------------------------------------------------------------
(* ConsensusState.run *)
SwitchOn(r) ==                                  \* EventStringSwitchToConsensus -> go cs.run()
  /\ up[r] /\ loop[r] = "off"
  /\ loop' = [loop EXCEPT ![r] = "top"]
  /\ UNCHANGED <<log, leader, durable, up, mStore, mState, pc, cur, dl, minH, hist>>

LoopLeader(r) ==                                \* rawRaft.State() = Leader: enter createProposalBlock
  /\ up[r] /\ loop[r] = "top" /\ leader = r
  /\ loop' = [loop EXCEPT ![r] = "creating"]
  /\ UNCHANGED <<log, leader, durable, up, mStore, mState, pc, cur, dl, minH, hist>>

\* createProposalBlock reads fsm.state at its END, then sign, rawRaft.Apply: the entry is built on the state
\* the proposer has at this moment -- whatever the log already holds beyond its own applied prefix
Propose(r) ==
  /\ up[r] /\ loop[r] = "creating" /\ leader = r /\ Len(log) < MaxLog
  /\ log' = Append(log, [h |-> mState[r].h + 1, par |-> mState[r].last, by |-> r])
  /\ loop' = [loop EXCEPT ![r] = "wait"]
  /\ UNCHANGED <<leader, durable, up, mStore, mState, pc, cur, dl, minH, hist>>

\* leadership was lost while the block was being created: rawRaft.Apply fails (the error is ignored) or the
\* entry never commits; the loop waits for an applied block all the same
ProposeLost(r) ==
  /\ up[r] /\ loop[r] = "creating" /\ leader # r
  /\ loop' = [loop EXCEPT ![r] = "wait"]
  /\ UNCHANGED <<log, leader, durable, up, mStore, mState, pc, cur, dl, minH, hist>>

----------------------------------------------------------------------------
(* BlockChainFSM.Apply *)
Result(r) == IF SnapGuard /\ mStore[r] < minH[r] THEN "behind"       \* blocks below the snapshot are missing: sync first
             ELSE IF mStore[r] + 1 # log[dl[r]].h THEN "dup" ELSE "apply"

Deliver(r, res) ==
  /\ up[r] /\ pc[r] = "idle" /\ dl[r] <= Len(log) /\ res = Result(r)
  /\ dl' = [dl EXCEPT ![r] = @ + 1]
  /\ IF res = "behind" THEN pc' = pc /\ cur' = cur /\ anom' = anom
     ELSE IF res = "dup"
     THEN /\ pc' = pc /\ cur' = cur
          /\ anom' = [anom EXCEPT ![r] = IF log[dl[r]].h > mStore[r] /\ ~gap[r] /\ @ = "none" THEN "skip" ELSE @]
     ELSE /\ pc' = [pc EXCEPT ![r] = "items"] /\ cur' = [cur EXCEPT ![r] = dl[r]]
          /\ anom' = anom
  /\ UNCHANGED <<log, leader, durable, up, mStore, mState, loop, minH, crashes, nlead, nsnap, readable, gap>>

E(r) == log[cur[r]]

W_Items(r) ==
  /\ up[r] /\ pc[r] = "items"
  /\ items' = [items EXCEPT ![r][E(r).h] = cur[r]]
  /\ pc' = [pc EXCEPT ![r] = "desc"]
  /\ UNCHANGED <<log, leader, desc, inter, app, stk, snap, snapH, up, mStore, mState, cur, dl, loop, minH, hist>>

\* ConsensusState.ValidateBlock: Block.ValidateBasic against fsm.state (height, LastBlockID; AppHash and
\* ReceiptsHash follow the parent) and the proposer's signature
Valid(e, st) == e.h = st.h + 1 /\ e.par = st.last

W_Desc(r) ==
  /\ up[r] /\ pc[r] = "desc"
  /\ desc' = [desc EXCEPT ![r] = E(r).h]
  /\ mStore' = [mStore EXCEPT ![r] = E(r).h]
  /\ readable' = [readable EXCEPT ![r][E(r).h] = IF @ = 0 THEN cur[r] ELSE @]
  /\ IF Valid(E(r), mState[r])
     THEN pc' = [pc EXCEPT ![r] = "inter"] /\ anom' = anom /\ cur' = cur
     ELSE /\ pc' = [pc EXCEPT ![r] = "idle"] /\ cur' = [cur EXCEPT ![r] = 0]   \* `return err`: no hand-off
          /\ anom' = [anom EXCEPT ![r] = "invalid"]
  /\ UNCHANGED <<log, leader, items, inter, app, stk, snap, snapH, up, mState, dl, loop, minH, crashes, nlead, nsnap, gap>>

W_Inter(r) ==
  /\ up[r] /\ pc[r] = "inter"
  /\ inter' = [inter EXCEPT ![r] = [h |-> E(r).h, blk |-> cur[r], base |-> mState[r].root]]
  /\ pc' = [pc EXCEPT ![r] = "applast"]
  /\ UNCHANGED <<log, leader, items, desc, app, stk, snap, snapH, up, mStore, mState, cur, dl, loop, minH, hist>>

\* the application executes the block on top of ITS OWN last committed state
W_AppLast(r) ==
  /\ up[r] /\ pc[r] = "applast"
  /\ app' = [app EXCEPT ![r] = Append(@, cur[r])]
  /\ pc' = [pc EXCEPT ![r] = "stsave"]
  /\ UNCHANGED <<log, leader, items, desc, inter, stk, snap, snapH, up, mStore, mState, cur, dl, loop, minH, hist>>

W_StSave(r) ==
  /\ up[r] /\ pc[r] = "stsave"
  /\ stk' = [stk EXCEPT ![r] = [h |-> E(r).h, last |-> cur[r], root |-> app[r]]]
  /\ mState' = [mState EXCEPT ![r] = stk'[r]]
  /\ pc' = [pc EXCEPT ![r] = "hand"]
  /\ UNCHANGED <<log, leader, items, desc, inter, app, snap, snapH, up, mStore, cur, dl, loop, minH, hist>>

\* b.appliedCh <- block is taken by run(): by a follower iteration, or by a leader iteration after its rawRaft.Apply
Hand(r) ==
  /\ up[r] /\ pc[r] = "hand"
  /\ loop[r] = "wait" \/ (loop[r] = "top" /\ leader # r)
  /\ pc' = [pc EXCEPT ![r] = "idle"] /\ cur' = [cur EXCEPT ![r] = 0]
  /\ loop' = [loop EXCEPT ![r] = "top"]
  /\ UNCHANGED <<log, leader, durable, up, mStore, mState, dl, minH, hist>>

----------------------------------------------------------------------------
(* snapshots: FSM.Snapshot returns (state height, hash); Persist writes them; Restore reads and discards *)
Snapshot(r) ==
  /\ up[r] /\ pc[r] = "idle" /\ nsnap < MaxSnap /\ dl[r] - 1 > snap[r]
  /\ snap' = [snap EXCEPT ![r] = dl[r] - 1]
  /\ snapH' = [snapH EXCEPT ![r] = mState[r].h]
  /\ nsnap' = nsnap + 1
  /\ UNCHANGED <<log, leader, items, desc, inter, app, stk, volatile, crashes, nlead, readable, gap, anom>>

\* a follower whose next entry the leader has compacted away gets the leader's snapshot: the FSM is told to
\* Restore, raft continues after the snapshot index.  (Which entries a leader has compacted depends on raft's
\* TrailingLogs setting; any entry covered by its snapshot may be gone.)
InstallSnap(r) ==
  /\ Install /\ up[r] /\ pc[r] = "idle" /\ leader \in R /\ leader # r /\ snap[leader] >= dl[r]
  /\ dl' = [dl EXCEPT ![r] = snap[leader] + 1]
  /\ snap' = [snap EXCEPT ![r] = snap[leader]]
  /\ snapH' = [snapH EXCEPT ![r] = snapH[leader]]
  /\ minH' = [minH EXCEPT ![r] = snapH[leader]]
  /\ gap' = [gap EXCEPT ![r] = TRUE]
  /\ UNCHANGED <<log, leader, items, desc, inter, app, stk, up, mStore, mState, pc, cur, loop,
                 crashes, nlead, nsnap, readable, anom>>

----------------------------------------------------------------------------
(* process death and restart *)
Crash(r) ==
  /\ up[r] /\ crashes < MaxCrash
  /\ crashes' = crashes + 1
  /\ up' = [up EXCEPT ![r] = FALSE]
  /\ pc' = [pc EXCEPT ![r] = "down"] /\ cur' = [cur EXCEPT ![r] = 0]
  /\ mStore' = [mStore EXCEPT ![r] = 0] /\ mState' = [mState EXCEPT ![r] = Genesis]
  /\ dl' = [dl EXCEPT ![r] = 0] /\ loop' = [loop EXCEPT ![r] = "off"] /\ minH' = [minH EXCEPT ![r] = 0]
  /\ leader' = IF leader = r THEN 0 ELSE leader
  /\ UNCHANGED <<log, durable, nlead, nsnap, readable, gap, anom>>

\* Angine.completeInterruptedCommit: application committed block H, State.Save() did not happen
DoComplete(r) == desc[r] # 0 /\ stk[r].h + 1 = desc[r] /\ Len(app[r]) = desc[r]
InterFits(r)  == inter[r].h = stk[r].h + 1 /\ inter[r].base = stk[r].root
St1(r) == IF DoComplete(r) /\ InterFits(r)
          THEN [h |-> inter[r].h, last |-> inter[r].blk, root |-> app[r]] ELSE stk[r]
\* NewBlockchainReactor: `store.height -= 1 // XXX HACK` on the store object the FSM uses, PanicSanity on mismatch
Ms1(r) == IF St1(r).h = desc[r] - 1 THEN desc[r] - 1 ELSE desc[r]
\* Angine.RecoverFromCrash(app hash, app height) sees the adjusted store height
RecoverPanics(r) ==
  LET s == Ms1(r)  a == Len(app[r]) IN
    s # 0 /\ (s < a \/ (s = a /\ St1(r).root # app[r]) \/ s > a)
RestartPanics(r) == (DoComplete(r) /\ ~InterFits(r)) \/ St1(r).h # Ms1(r) \/ RecoverPanics(r)

Restart(r, res) ==
  /\ ~up[r] /\ pc[r] = "down"
  /\ res = IF RestartPanics(r) THEN "panic" ELSE "ok"
  /\ IF res = "panic"
     THEN /\ pc' = [pc EXCEPT ![r] = "panic"]
          /\ UNCHANGED <<stk, up, mStore, mState, dl, minH>>
     ELSE /\ stk' = [stk EXCEPT ![r] = St1(r)]
          /\ mState' = [mState EXCEPT ![r] = St1(r)]
          /\ mStore' = [mStore EXCEPT ![r] = Ms1(r)]
          /\ up' = [up EXCEPT ![r] = TRUE]
          /\ pc' = [pc EXCEPT ![r] = "idle"]
          /\ dl' = [dl EXCEPT ![r] = snap[r] + 1]      \* raft: restore the snapshot, deliver what follows it
          /\ minH' = [minH EXCEPT ![r] = snapH[r]]
  /\ UNCHANGED <<log, leader, items, desc, inter, app, snap, snapH, cur, loop, hist>>

----------------------------------------------------------------------------
Next ==
  \/ \E r \in R : Elect(r)
  \/ \E r \in R : SwitchOn(r)
  \/ \E r \in R : LoopLeader(r)
  \/ \E r \in R : Propose(r)
  \/ \E r \in R : ProposeLost(r)
  \/ \E r \in R : \E res \in {"behind", "dup", "apply"} : Deliver(r, res)
  \/ \E r \in R : W_Items(r)
  \/ \E r \in R : W_Desc(r)
  \/ \E r \in R : W_Inter(r)
  \/ \E r \in R : W_AppLast(r)
  \/ \E r \in R : W_StSave(r)
  \/ \E r \in R : Hand(r)
  \/ \E r \in R : Snapshot(r)
  \/ \E r \in R : InstallSnap(r)
  \/ \E r \in R : Crash(r)
  \/ \E r \in R : \E res \in {"ok", "panic"} : Restart(r, res)

Spec == Init /\ [][Next]_vars

----------------------------------------------------------------------------
(* Properties *)

TypeOK ==
  /\ leader \in R \cup {0}
  /\ \A r \in R :
       /\ pc[r] \in {"idle", "items", "desc", "inter", "applast", "stsave", "hand", "down", "panic"}
       /\ loop[r] \in {"off", "top", "creating", "wait"}
       /\ desc[r] \in 0..MaxLog /\ mStore[r] \in 0..MaxLog /\ dl[r] \in 0..(MaxLog + 1)
       /\ snap[r] \in 0..MaxLog /\ cur[r] \in 0..MaxLog /\ snapH[r] \in 0..MaxLog /\ minH[r] \in 0..MaxLog
  /\ Len(log) <= MaxLog

\* the restart path never ends in PanicSanity / an error
RestartSucceeds == \A r \in R : pc[r] # "panic"

\* a committed entry that passes the height test is a valid block for the replica, and an entry that is dropped
\* as "dup" is one (unless raft skipped entries by installing a snapshot)
NoAnomaly == \A r \in R : anom[r] = "none"

\* the application of every replica executed consecutive heights, each once, each on top of its parent
Chain(s) == \A k \in 1..Len(s) : /\ s[k] \in 1..Len(log) /\ log[s[k]].h = k
                                  /\ log[s[k]].par = IF k = 1 THEN 0 ELSE s[k - 1]
AppliedOnceInOrder == \A r \in R : Chain(app[r]) /\ Chain(stk[r].root) /\ IsPrefix(stk[r].root, app[r])

\* any two replicas applied prefix-related chains (equal blocks at equal heights)
Agreement == \A r, s \in R : IsPrefix(app[r], app[s]) \/ IsPrefix(app[s], app[r])

\* store, state and application agree whenever no Apply is in progress: after every completed Apply (also
\* while it waits to hand the block over) and after every restart.  The descriptor on disk may be one ahead
\* of the adjusted in-memory store height only for a block that raft is about to deliver again.
Settled(r) == up[r] /\ pc[r] \in {"idle", "hand"} /\ anom[r] = "none"
HeightsAgree ==
  \A r \in R : Settled(r) =>
    /\ mState[r] = stk[r] /\ mState[r].h = mStore[r] /\ Len(app[r]) = mStore[r]
    /\ stk[r].root = app[r]
    /\ stk[r].last = IF stk[r].h = 0 THEN 0 ELSE app[r][stk[r].h]
    /\ \/ desc[r] = mStore[r]
       \/ /\ desc[r] = mStore[r] + 1
          /\ gap[r] \/ (items[r][desc[r]] >= dl[r] /\ items[r][desc[r]] <= Len(log))

\* what became readable stays stored unchanged, and every stored block is the one the application executed
NoBlockLost ==
  \A r \in R : \A h \in 1..desc[r] :
    /\ readable[r][h] # 0 /\ items[r][h] = readable[r][h]
    /\ h <= Len(app[r]) => app[r][h] = items[r][h]

\* a proposed block builds on the proposer's last applied block
ProposalOnApplied ==
  [][Len(log') > Len(log) =>
       LET e == log'[Len(log')] IN
         /\ e.h = mState[e.by].h + 1 /\ e.par = mState[e.by].last
         /\ e.par = IF e.h = 1 THEN 0 ELSE app[e.by][e.h - 1]]_vars

\* NOT an invariant of the code (see DESIGN): a leader whose loop waits for an applied block although nothing
\* that will be applied is on its way never proposes again
LeaderNotStuck ==
  \A r \in R : (up[r] /\ leader = r /\ loop[r] = "wait" /\ pc[r] = "idle")
                 => \E k \in dl[r]..Len(log) : log[k].h = mStore[r] + 1
=============================================================================
