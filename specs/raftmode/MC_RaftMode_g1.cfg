SPECIFICATION Spec
CONSTANTS
  R <- R1
  MaxLog = 2
  MaxCrash = 2
  MaxLead = 1
  MaxSnap = 1
  Install = FALSE
  SnapGuard = TRUE
INVARIANTS TypeOK RestartSucceeds NoAnomaly AppliedOnceInOrder Agreement HeightsAgree NoBlockLost
PROPERTIES ProposalOnApplied
CHECK_DEADLOCK FALSE
