---- MODULE MC_PeerInput ----
(* Constants for PeerInput.tla.  The proposer tables are those the real ValidatorSet computes for four validators of *)
(* power 1 (`csim tables`); the engine regenerates this module from the real code before every run.                  *)
EXTENDS PeerInput
PowerT == <<1, 1, 1, 1>>
LiveT == <<<<1, 2, 3, 4>>, <<2, 3, 4, 1>>, <<3, 4, 1, 2>>>>
StaleT == <<2, 3, 4>>
MCPower == [i \in 1..4 |-> PowerT[i]]
MCNextPower == <<>>
MCLive == [h \in 1..3 |-> [r \in 0..3 |-> LiveT[h][r + 1]]]
MCStale == [h \in 1..3 |-> StaleT[h]]
MCSits == {"NewHeight", "Propose", "ProposeProp", "Prevote", "Precommit", "PolkaUnknown", "CommitWait", "NewHeight2", "Round1", "FastSync"}
====
