------------------------------ MODULE PeerInput ------------------------------
(* C08 - what ONE message from a connected peer does to an honest node.                                  *)
(*                                                                                                        *)
(* Receiver: validator T, the only honest node of this instance of Tendermint.tla (Byz = Vals \ {T}; the  *)
(* other validators are scripted with their real keys).  T is brought into a SITUATION by a scripted      *)
(* prefix that is interpreted with Tendermint's own operators (HandleMsg, HandleTimeout), so a situation  *)
(* is a reachable node record of that specification.  Then the peer sends one MESSAGE CLASS: a message    *)
(* type of the consensus reactor with every field drawn from a finite class set, sent on some channel,    *)
(* by a peer that told us before (NewRoundStep ...) nothing / our own height+round / that and more.       *)
(*                                                                                                        *)
(* Outcome(s, sit, m) transcribes, branch by branch, ConsensusReactor.Receive (reactor.go) followed by    *)
(* handleMsg for what Receive queued (state.go, height_vote_set.go, vote_set.go, part_set.go):            *)
(*    "Disconnect"  Receive panics; MConnection._recover stops the peer; nothing was queued               *)
(*    "Drop"        the message is consumed without any change of the consensus state                     *)
(*    "Accept"      the consensus state changes, and it changes as Tendermint.tla prescribes              *)
(* A crash (panic on the consensus goroutine, death of a gossip routine, fatal allocation) and a wedge    *)
(* are not outcomes: the type of Outcome has no such value, so a real crash can never conform.            *)
(* The state graph is the test plan: one Setup edge per situation, one Input edge per (situation, class). *)
EXTENDS Tendermint

CONSTANTS
  T,         \* validator under test
  Sits,      \* situations explored
  Pairwise   \* TRUE: Vote / Proposal / BlockPart classes also with every PAIR of deviating fields

VARIABLES
  sit,       \* "boot" or the situation T is in
  phase      \* "boot" | "ready" | "done"

pvars == <<node, net, byzUsed, crashes, act, sit, phase>>

Others   == Vals \ {T}
O(k)     == CHOOSE i \in Others : Cardinality({j \in Others : j < i}) = k - 1
Huge     == 1000000000
Outcomes == {"Accept", "Drop", "Disconnect"}

-----------------------------------------------------------------------------
(* Situations *)
X1        == XVal(1, 1)
Tick(h, r, st) == [h |-> h, r |-> r, st |-> st]
P10       == LiveProp[1][0]
Pv(i, v)  == <<"M", VMsg(1, 0, "pv", i, v)>>
Pc(i, v)  == <<"M", VMsg(1, 0, "pc", i, v)>>
Fire_     == <<"F">>
Own       == <<"I">>

PrePropose  == << Fire_, <<"T", Tick(1, 0, NewHeight)>> >>
PreProp     == PrePropose \o << <<"M", PMsg(1, 0, X1, -1, P10)>> >>
PrePrevote  == PreProp \o << <<"M", BMsg(1, 0, X1)>>, Own >>
PrePrecommit == PrePrevote \o << Pv(O(1), X1), Pv(O(2), X1), Own >>

Pre(sn) ==
  CASE sn = "NewHeight"     -> << >>
    [] sn = "FastSync"      -> << >>
    [] sn = "Propose"       -> PrePropose
    [] sn = "ProposeProp"   -> PreProp
    [] sn = "Prevote"       -> PrePrevote
    [] sn = "Precommit"     -> PrePrecommit
    [] sn = "PolkaUnknown"  -> PrePropose \o << Pv(O(1), X1), Pv(O(2), X1), Pv(O(3), X1), Own >>
    [] sn = "CommitWait"    -> PrePropose \o << Pc(O(1), X1), Pc(O(2), X1), Pc(O(3), X1), Own >>
    [] sn = "NewHeight2"    -> PrePrecommit \o << Pc(O(1), X1), Pc(O(2), X1) >>
    [] sn = "Round1"        -> PrePropose \o << Fire_, <<"T", Tick(1, 0, Propose)>>, Own,
                                                Pv(O(1), Nil), Pv(O(2), Nil), Own, Pc(O(1), Nil), Pc(O(2), Nil) >>

Started  == [InitNode(1, NoCommit) EXCEPT !.timer = Tick(1, 0, NewHeight), !.armed = TRUE]  \* OnStart: scheduleRound0
Boot(sn) == IF sn = "FastSync" THEN InitNode(1, NoCommit) ELSE Started   \* fast sync: the consensus state is not started

RECURSIVE Run(_, _)
Run(s, seq) ==
  IF seq = << >> THEN s
  ELSE LET x  == Head(seq)
           s1 == CASE x[1] = "F" -> [s EXCEPT !.armed = FALSE, !.tocks = @ \cup {s.timer}]
                   [] x[1] = "T" -> HandleTimeout(T, [s EXCEPT !.tocks = @ \ {x[2]}], x[2])
                   [] x[1] = "M" -> HandleMsg(T, s, x[2])
                   [] x[1] = "I" -> HandleMsg(T, [s EXCEPT !.iq = Tail(@)], Head(s.iq))
       IN Run(s1, Tail(seq))

-----------------------------------------------------------------------------
(* Message classes.  m = [t: type, ch: channel, ps: what the peer claimed before, d: deviations, f: field classes] *)
Chan(t) == CASE t \in {"NewRoundStep", "CommitStep", "HasVote", "VoteSetMaj23", "Raw"} -> "state"
             [] t \in {"Proposal", "ProposalPOL", "BlockPart"}                        -> "data"
             [] t = "Vote"                                                            -> "vote"
             [] t = "VoteSetBits"                                                     -> "bits"
Chans == {"state", "data", "vote", "bits", "unknown"}

Mk(t, ch, ps, d, f) == [t |-> t, ch |-> ch, ps |-> ps, d |-> d, f |-> f]
Flat(cls)  == UNION {{<<k, c>> : c \in cls[k]} : k \in DOMAIN cls}
Valid1(t, b)          == Mk(t, Chan(t), "synced", {}, b)
Singles(t, b, cls)    == {Mk(t, Chan(t), "synced", {p}, [b EXCEPT ![p[1]] = p[2]]) : p \in Flat(cls)}
PeerDevs(t, b)        == {Mk(t, Chan(t), c, {<<"ps", c>>}, b) : c \in {"fresh", "full"}}
ChanDevs(t, b)        == {Mk(t, c, "synced", {<<"ch", c>>}, b) : c \in Chans \ {Chan(t)}}
PeerSingles(t, b, cls) == {Mk(t, Chan(t), c, {<<"ps", c>>, p}, [b EXCEPT ![p[1]] = p[2]]) : c \in {"fresh", "full"}, p \in Flat(cls)}
Pairs(t, b, cls)      == UNION {{Mk(t, Chan(t), "synced", {p, q}, [b EXCEPT ![p[1]] = p[2], ![q[1]] = q[2]]) :
                                   q \in {y \in Flat(cls) : y[1] # p[1]}} : p \in Flat(cls)}
AllOf(t, b, cls)      == {Valid1(t, b)} \cup Singles(t, b, cls) \cup PeerDevs(t, b) \cup ChanDevs(t, b)

HCls == {"prev", "next", "zero", "neg", "huge"}
RCls == {"next", "far", "neg1", "neg", "huge"}
BACls == {"nilptr", "short", "long", "few", "many", "negbits", "huge"}

VoteCls == [vp |-> {"nil"}, h |-> HCls, r |-> RCls, ty |-> {"bad", "zero"},
            ix |-> {"other", "neg1", "neg64", "size", "huge"}, ad |-> {"empty", "short", "other"}, sg |-> {"bad", "nil", "secp"}]
VoteBase(ty, bi, by) == [vp |-> "ok", h |-> "cur", r |-> "cur", ty |-> ty, ix |-> "ok", ad |-> "ok", sg |-> "ok", bi |-> bi, by |-> by]
VoteMsgs(s) ==
  LET bases == {VoteBase(ty, bi, by) : ty \in {"pv", "pc"}, bi \in {"blk", "nil"}, by \in {"prop", "val", "third"}}
      b0    == VoteBase("pv", "blk", "prop")
      last  == IF s.h > 1 THEN {[VoteBase("pc", "last", by) EXCEPT !.h = "prev"] : by \in {"prop", "val", "third"}} ELSE {}
  IN UNION {AllOf("Vote", b, VoteCls) : b \in bases}
     \cup {Mk("Vote", "vote", "synced", {<<"h", "prev">>, <<"bi", "last">>}, b) : b \in last}
     \cup PeerSingles("Vote", b0, VoteCls)
     \cup (IF Pairwise THEN Pairs("Vote", b0, VoteCls) ELSE {})

PropCls(s) == [pp |-> {"nil"}, h |-> HCls, r |-> RCls, pt |-> {"zero", "neg1", "negbig", "big", "huge"},
               pol |-> {"eq", "neg2", "huge"} \cup (IF s.r >= 1 THEN {"valid"} ELSE {}),
               sg |-> {"bad", "nil", "wrongkey"}, blk |-> {"y"}]
PropBase == [pp |-> "ok", h |-> "cur", r |-> "cur", pt |-> "ok", pol |-> "none", sg |-> "ok", blk |-> "x"]
PropMsgs(s) == AllOf("Proposal", PropBase, PropCls(s)) \cup PeerSingles("Proposal", PropBase, PropCls(s))
               \cup (IF Pairwise THEN Pairs("Proposal", PropBase, PropCls(s)) ELSE {})

PartCls == [pa |-> {"nil"}, h |-> HCls, r |-> RCls, pi |-> {"neg1", "neg64", "total", "huge"}, pf |-> {"bad"},
            pb |-> {"garbage"}, blk |-> {"y"}]
PartBase == [pa |-> "ok", h |-> "cur", r |-> "cur", pi |-> "ok", pf |-> "ok", pb |-> "ok", blk |-> "x"]
PartMsgs == AllOf("BlockPart", PartBase, PartCls) \cup PeerSingles("BlockPart", PartBase, PartCls)
            \cup (IF Pairwise THEN Pairs("BlockPart", PartBase, PartCls) ELSE {})

NRSCls  == [h |-> HCls, r |-> RCls, st |-> {"zero", "huge"}, ss |-> {"neg", "huge"}, lcr |-> {"zero", "neg", "huge"}]
NRSBase == [h |-> "cur", r |-> "cur", st |-> "ok", ss |-> "zero", lcr |-> "none"]
CSCls   == [h |-> HCls, pt |-> {"zero", "neg1", "huge"}, ba |-> BACls]
CSBase  == [h |-> "cur", pt |-> "ok", ba |-> "ok"]
POLCls  == [h |-> HCls, pr |-> {"other", "huge"}, ba |-> BACls]
POLBase == [h |-> "cur", pr |-> "match", ba |-> "ok"]
HVCls   == [h |-> HCls, r |-> RCls, ty |-> {"bad", "zero"}, ix |-> {"neg1", "neg64", "size", "huge"}]
HVBase(ty) == [h |-> "cur", r |-> "cur", ty |-> ty, ix |-> "ok"]
MajCls  == [h |-> HCls, r |-> RCls, ty |-> {"bad", "zero"}, bi |-> {"nil", "unk"}]
MajBase(ty) == [h |-> "cur", r |-> "cur", ty |-> ty, bi |-> "blk"]
BitsCls == [h |-> HCls, r |-> RCls, ty |-> {"bad", "zero"}, bi |-> {"nil", "unk"}, ba |-> BACls]
BitsBase(ty) == [h |-> "cur", r |-> "cur", ty |-> ty, bi |-> "blk", ba |-> "ok"]
RawKinds == {"empty", "nilmsg", "unknowntype", "truncated", "trailing", "typeonly"}

WithPeers(t, b, cls) == AllOf(t, b, cls) \cup PeerSingles(t, b, cls)

Msgs(s) ==
  VoteMsgs(s) \cup PropMsgs(s) \cup PartMsgs
  \cup WithPeers("NewRoundStep", NRSBase, NRSCls) \cup WithPeers("CommitStep", CSBase, CSCls)
  \cup WithPeers("ProposalPOL", POLBase, POLCls)
  \cup UNION {WithPeers("HasVote", HVBase(ty), HVCls) \cup WithPeers("VoteSetMaj23", MajBase(ty), MajCls)
              \cup WithPeers("VoteSetBits", BitsBase(ty), BitsCls) : ty \in {"pv", "pc"}}
  \cup (IF Pairwise THEN Pairs("HasVote", HVBase("pc"), HVCls) \cup Pairs("VoteSetBits", BitsBase("pv"), BitsCls) ELSE {})
  \cup {Mk("Raw", c, "synced", {<<"kind", k>>}, [kind |-> k]) : k \in RawKinds, c \in {"state", "data", "vote", "bits"}}

-----------------------------------------------------------------------------
(* Concretisation of classes relative to the receiver's state *)
HOf(s, c) == CASE c = "cur" -> s.h [] c = "prev" -> s.h - 1 [] c = "next" -> s.h + 1 [] c = "zero" -> 0
               [] c = "neg" -> -7 [] c = "huge" -> Huge
ROf(s, c) == CASE c = "cur" -> s.r [] c = "next" -> s.r + 1 [] c = "far" -> s.r + 2 [] c = "neg1" -> -1
               [] c = "neg" -> -1000 [] c = "huge" -> Huge
Z(s)      == IF LiveProp[s.h][s.r] # T THEN LiveProp[s.h][s.r] ELSE O(1)     \* the round's proposer: the Byzantine validator
Signer(s, c) == CASE c = "prop"  -> Z(s)
                  [] c = "val"   -> CHOOSE i \in Others \ {Z(s)} : \A j \in Others \ {Z(s)} : i <= j
                  [] c = "third" -> CHOOSE i \in Others \ {Z(s)} : \A j \in Others \ {Z(s)} : j <= i
XOf(s)    == XVal(s.h, 1)
ValOf(s, c) == CASE c = "blk" -> XOf(s) [] c = "x" -> XOf(s) [] c = "y" -> XVal(s.h, 2) [] c = "nil" -> Nil
                 [] c = "last" -> XVal(s.h - 1, 1) [] c = "unk" -> <<"U">>
BadType(c) == c \in {"bad", "zero"}

(* PeerState as the peer's earlier (valid) messages left it *)
PsHeight(s, ps) == IF ps = "fresh" THEN 0 ELSE s.h
PsRound(s, ps)  == IF ps = "fresh" THEN -1 ELSE s.r
\* getVoteBitArray(H, R, ty) returns a non-nil array?  `ensured`: EnsureVoteBitArrays has run for our height
VBA(s, ps, ensured, H, R, ty) ==
  /\ ps # "fresh" /\ ensured
  /\ \/ H = s.h /\ (R = s.r \/ (R = -1 /\ ty = "pc"))            \* Prevotes/Precommits; CatchupCommit (round -1 = unset)
     \/ H + 1 = s.h /\ R = s.lc.r /\ ty = "pc" /\ s.lc.r >= 0     \* LastCommit (size 0 = nil at height 1)
\* invalid bit arrays are dropped by Receive before PeerState sees them (validBitArray)
BadBA(c) == c \in {"few", "many", "negbits", "huge"}
BadTotal(c) == c \in {"zero", "neg1", "negbig", "big", "huge"}

-----------------------------------------------------------------------------
(* The abstract Tendermint message of a class (meaningful when the class is well formed) *)
Abs(s, m) ==
  LET f == m.f IN
  CASE m.t = "Vote"      -> VMsg(HOf(s, f.h), ROf(s, f.r), f.ty, Signer(s, f.by), ValOf(s, f.bi))
    [] m.t = "Proposal"  -> PMsg(HOf(s, f.h), ROf(s, f.r), ValOf(s, f.blk),
                                 CASE f.pol = "none" -> -1 [] f.pol = "valid" -> 0 [] f.pol = "eq" -> ROf(s, f.r)
                                   [] f.pol = "neg2" -> -2 [] f.pol = "huge" -> Huge,
                                 IF f.sg = "wrongkey" THEN Signer(s, "val") ELSE Z(s))
    [] m.t = "BlockPart" -> BMsg(HOf(s, f.h), ROf(s, f.r), ValOf(s, f.blk))

\* every field that validation looks at is as a correct sender sets it
WellFormed(m) ==
  LET f == m.f IN
  CASE m.t = "Vote"      -> f.vp = "ok" /\ ~BadType(f.ty) /\ f.ix = "ok" /\ f.ad = "ok" /\ f.sg = "ok"
    [] m.t = "Proposal"  -> f.pp = "ok" /\ ~BadTotal(f.pt) /\ f.sg \in {"ok", "wrongkey"}
    [] m.t = "BlockPart" -> f.pa = "ok" /\ f.pi = "ok" /\ f.pf = "ok" /\ f.pb = "ok"
    [] OTHER             -> TRUE

Queued(t) == t \in {"Vote", "Proposal", "BlockPart"}

-----------------------------------------------------------------------------
(* Receive: where it panics (=> Disconnect) *)
Disconnects(s, sn, m) ==
  LET f == m.f
      fast == sn = "FastSync" /\ m.ch \in {"data", "vote", "bits"}     \* "Ignoring message received during fastSync"
  IN
  IF m.ch = "unknown" THEN TRUE                                         \* MConnection.recvRoutine: PanicQ("Unknown channel"), before any reactor
  ELSE IF m.t = "Raw" THEN f.kind = "empty"                             \* DecodeMessage: bz[0]
  ELSE IF m.ch # Chan(m.t) \/ fast THEN FALSE                           \* unknown type for that channel / ignored
  ELSE CASE
       m.t = "Vote" ->
         \/ f.vp = "nil"                                                \* ps.SetHasVote(nil)
         \/ BadType(f.ty)                                               \* getVoteBitArray: PanicSanity
         \/ f.ix = "neg64" /\ VBA(s, m.ps, TRUE, HOf(s, f.h), ROf(s, f.r), f.ty)   \* BitArray.setIndex: Elems[-1]
    [] m.t = "HasVote" ->
         /\ PsHeight(s, m.ps) = HOf(s, f.h)
         /\ \/ BadType(f.ty)
            \/ f.ix = "neg64" /\ VBA(s, m.ps, m.ps = "full", HOf(s, f.h), ROf(s, f.r), f.ty)
    [] m.t = "Proposal" -> f.pp = "nil"                                 \* msg.Proposal.BlockPartsHeader
    [] m.t = "BlockPart" ->
         \/ f.pa = "nil"                                                \* msg.Part.Index
         \/ f.pi = "neg64" /\ m.ps = "full" /\ HOf(s, f.h) = s.h /\ ROf(s, f.r) = s.r   \* ps.ProposalBlockParts.SetIndex
    [] m.t = "VoteSetBits" ->
         /\ f.ba # "nilptr" /\ ~BadBA(f.ba)
         /\ HOf(s, f.h) # s.h /\ BadType(f.ty)                          \* ApplyVoteSetBitsMessage(msg, nil): getVoteBitArray
    [] OTHER -> FALSE

(* handleMsg for a queued, well-formed message; and the claims a VoteSetMaj23 registers *)
Effect(s, m) ==
  IF Queued(m.t) THEN
       LET a == Abs(s, m) IN
       IF m.t = "Vote" /\ a.r < 0 THEN s                                \* HeightVoteSet.AddVote: no round is negative
       ELSE HandleMsg(T, s, a)
  ELSE s

\* a valid vote for a round beyond the model's window opens a catch-up round: a change the node record does not show
BeyondWindow(s, m) ==
  /\ m.t = "Vote" /\ HOf(s, m.f.h) = s.h /\ ROf(s, m.f.r) > MaxRound
  /\ Cardinality(s.catch[Signer(s, m.f.by)]) < 2

Outcome(s, sn, m) ==
  LET f == m.f
      fast == sn = "FastSync" /\ m.ch \in {"data", "vote", "bits"}
  IN
  IF Disconnects(s, sn, m) THEN "Disconnect"
  ELSE IF m.t = "Raw" \/ m.ch # Chan(m.t) \/ fast THEN "Drop"
  ELSE IF Queued(m.t) THEN
         IF ~WellFormed(m) THEN "Drop"
         ELSE IF BeyondWindow(s, m) THEN "Accept"
         ELSE IF Effect(s, m) # s THEN "Accept" ELSE "Drop"
  ELSE IF m.t = "VoteSetMaj23" THEN
         \* SetPeerMaj23: our height, a valid type, a round we hold vote sets for
         IF HOf(s, f.h) = s.h /\ ~BadType(f.ty) /\ ROf(s, f.r) \in s.rs THEN "Accept" ELSE "Drop"
  ELSE "Drop"     \* NewRoundStep, CommitStep, ProposalPOL, HasVote, VoteSetBits: PeerState only

-----------------------------------------------------------------------------
Init0 ==
  /\ node = [n \in Honest |-> Started]
  /\ net = {} /\ byzUsed = 0 /\ crashes = 0
  /\ act = <<"Init">>
  /\ sit = "boot" /\ phase = "boot"

Setup(sn) ==
  /\ phase = "boot"
  /\ node' = [n \in Honest |-> Run(Boot(sn), Pre(sn))]
  /\ sit' = sn /\ phase' = "ready"
  /\ act' = <<"Setup", sn, Pre(sn)>>
  /\ UNCHANGED <<net, byzUsed, crashes>>

Input(m, o) ==
  /\ phase = "ready"
  /\ o = Outcome(node[T], sit, m)
  /\ node' = IF o = "Accept" THEN [node EXCEPT ![T] = Effect(node[T], m)] ELSE node
  /\ phase' = "done"
  /\ act' = <<"Input", m, o>>
  /\ UNCHANGED <<net, byzUsed, crashes, sit>>

(* The other reactors a peer can talk to.  Their Receive functions touch no consensus state; the table transcribes    *)
(* blockchain/reactor.go + pool.go (fast sync, poolRoutine running; "requested-*": the pool asked this peer for blocks *)
(* 1 and 2 and gets block 1 / block 2 damaged as named), mempool/reactor.go, p2p/pex_reactor.go + addrbook.go.         *)
(* Accept = the reactor's own state changes as intended (blocks executed / tx pooled / address booked).               *)
OtherPlan == {
  <<"bc", "status-ok", "Drop">>, <<"bc", "status-zero", "Drop">>, <<"bc", "status-neg", "Drop">>, <<"bc", "status-huge", "Drop">>,
  <<"bc", "statusreq", "Drop">>, <<"bc", "blockreq-unknown", "Drop">>, <<"bc", "blockreq-huge", "Drop">>,
  <<"bc", "blockreq-zero", "Disconnect">>, <<"bc", "blockreq-neg", "Disconnect">>,        \* archive.QueryFileHash: /Threshold (0 by default)
  <<"bc", "raw-empty", "Disconnect">>, <<"bc", "raw-unknowntype", "Drop">>, <<"bc", "raw-truncated", "Drop">>,
  <<"bc", "resp-unsolicited-nil", "Disconnect">>, <<"bc", "resp-unsolicited-nil-header", "Disconnect">>,   \* pool.AddBlock: block.Height
  <<"bc", "resp-unsolicited-valid", "Drop">>,
  <<"bc", "requested-nil", "Disconnect">>, <<"bc", "requested-nil-header", "Disconnect">>,
  <<"bc", "requested-nil-data", "Drop">>, <<"bc", "requested-nil-lastcommit", "Drop">>, <<"bc", "requested-wrong-height", "Drop">>,
  <<"bc", "requested-second-nil-lastcommit", "Drop">>, <<"bc", "requested-second-commit-nil-entries", "Drop">>,
  <<"bc", "requested-second-commit-empty", "Drop">>, <<"bc", "requested-second-commit-short", "Drop">>,
  <<"bc", "requested-second-commit-bad-vote", "Drop">>, <<"bc", "requested-second-commit-neg-height", "Drop">>,
  <<"bc", "requested-second-nil-data", "Accept">>,          \* block 2's LastCommit is what verifies block 1
  <<"bc", "requested-valid", "Accept">>,
  \* responses the pool did not ask for in that form, while block 1 still waits for block 2 (height not popped): the
  \* requester / pool refuse them (bpRequester.setBlock: block already set, or another peer; AddBlock: no requester),
  \* nothing blocks, and honest responses afterwards are executed: the sync completes ("Accept")
  <<"bc", "response-duplicate", "Accept">>,            \* the assigned peer answers the same request twice
  <<"bc", "response-two-different", "Accept">>,        \* ... with two different blocks for the height
  <<"bc", "response-nonassigned-peer", "Accept">>,     \* a peer the request was not assigned to
  <<"bc", "response-unrequested-height", "Accept">>,   \* a height nobody asked this peer for
  \* genuine blocks 1..3, but block 3's LastCommit (stored as block 2's seen commit, later fed precommit by precommit to
  \* VoteSet.AddVote by reconstructLastCommit at the switch to consensus and at every restart) has genuine precommits in the
  \* low slots - already +2/3 - and this in the LAST slot.  ValidatorSet.VerifyCommit checks every slot: the block is
  \* refused ("Drop") unless the slot is something a commit may contain ("Accept": block 2 executed, and the node comes up on it)
  <<"bc", "commit-late-badsig", "Drop">>, <<"bc", "commit-late-wrong-height", "Drop">>, <<"bc", "commit-late-wrong-round", "Drop">>,
  <<"bc", "commit-late-wrong-type", "Drop">>, <<"bc", "commit-late-wrong-index", "Drop">>, <<"bc", "commit-late-wrong-address", "Drop">>,
  <<"bc", "commit-late-empty-address", "Drop">>, <<"bc", "commit-late-duplicate", "Drop">>,
  <<"bc", "commit-late-nil", "Accept">>,               \* a validator may be absent from a commit
  <<"bc", "commit-late-other-block", "Accept">>,       \* a validly signed precommit for another block does not count, and is no error
  <<"mempool", "tx-small", "Accept">>, <<"mempool", "tx-empty", "Accept">>, <<"mempool", "tx-big", "Accept">>,
  <<"mempool", "tx-over-limit", "Drop">>, <<"mempool", "tx-length-lie", "Drop">>, <<"mempool", "tx-neg-length", "Drop">>,
  <<"mempool", "tx-duplicate", "Drop">>, <<"mempool", "raw-empty", "Disconnect">>, <<"mempool", "raw-unknowntype", "Drop">>,
  <<"mempool", "raw-nilmsg", "Drop">>,
  <<"pex", "request", "Drop">>, <<"pex", "addrs-ok", "Accept">>, <<"pex", "addrs-empty", "Drop">>,
  <<"pex", "addrs-nil-entry", "Disconnect">>,               \* AddrBook.addAddress: addr.Routable() on nil
  <<"pex", "addrs-empty-ip", "Accept">>, <<"pex", "addrs-odd-ip", "Accept">>, <<"pex", "addrs-port-zero", "Accept">>,
  <<"pex", "addrs-loopback", "Drop">>, <<"pex", "addrs-many", "Accept">>, <<"pex", "addrs-count-lie", "Drop">>,
  <<"pex", "addrs-neg-count", "Drop">>, <<"pex", "raw-empty", "Disconnect">>, <<"pex", "raw-unknowntype", "Drop">> }

Other(x) ==
  /\ phase = "boot"
  /\ sit' = "other" /\ phase' = "done"
  /\ act' = <<"Other", x[1], x[2], x[3]>>
  /\ UNCHANGED <<node, net, byzUsed, crashes>>

Next0 ==
  \/ phase = "boot"  /\ \E x \in OtherPlan : Other(x)
  \/ phase = "boot"  /\ \E sn \in Sits : Setup(sn)
  \/ phase = "ready" /\ \E m \in Msgs(node[T]) : Input(m, Outcome(node[T], sit, m))

PSpec == Init0 /\ [][Next0]_pvars

-----------------------------------------------------------------------------
(* Properties *)

\* every (situation, class) has exactly one outcome of the three (evaluating Outcome for all classes in every situation
\* also shows that no CASE of the transcription is left without an arm)
Totality ==
  /\ phase = "ready" => \A m \in Msgs(node[T]) : Outcome(node[T], sit, m) \in Outcomes
  /\ \A x \in OtherPlan : x[3] \in Outcomes /\ \A y \in OtherPlan : (x[1] = y[1] /\ x[2] = y[2]) => x[3] = y[3]

\* whatever is not accepted leaves the consensus state exactly as it was
InvalidLeavesStateUnchanged ==
  [][(act'[1] = "Input" /\ act'[3] # "Accept") => node' = node]_pvars

\* only messages whose validated fields are all correct are ever accepted, and never through a panic of Receive
Validated == {"vp", "ty", "ix", "ad", "sg", "pp", "pt", "pa", "pi", "pf", "pb", "ba", "kind", "ch"}
AcceptOnlyValid ==
  (phase = "done" /\ act[1] = "Input" /\ act[3] = "Accept") =>
     /\ \A p \in act[2].d : p[1] \notin Validated
     /\ WellFormed(act[2])

\* an accepted proposal / part / vote changes the node as Tendermint.tla's handleMsg does, nothing else does
AcceptFollowsTendermint ==
  [][(act'[1] = "Input" /\ act'[3] = "Accept") =>
        node'[T] = (IF Queued(act'[2].t) THEN HandleMsg(T, node[T], Abs(node[T], act'[2])) ELSE node[T])
        \/ BeyondWindow(node[T], act'[2])]_pvars

\* the receiver's own rules are never broken by a single peer message (no panic branch of the transcribed state machine)
NoPanicBranch == node[T].bad = "ok"

TypeOK0 == sit \in Sits \cup {"boot", "other"} /\ phase \in {"boot", "ready", "done"}
=============================================================================
