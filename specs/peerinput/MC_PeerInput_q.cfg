SPECIFICATION PSpec
CONSTANTS
  N = 4
  Power <- MCPower
  NextPower <- MCNextPower
  Byz = {1, 2, 3}
  T = 4
  MaxRound = 3
  MaxHeight = 2
  LiveProp <- MCLive
  StaleProp <- MCStale
  NByzVals = 2
  ByzBudget = 0
  MaxCrashes = 0
  CrashSet = {}
  OwnFirst = FALSE
  UsefulOnly = FALSE
  Sync = FALSE
  Torn = FALSE
  Sits <- MCSits
  Pairwise = FALSE
INVARIANTS TypeOK0 Totality AcceptOnlyValid NoPanicBranch
PROPERTIES InvalidLeavesStateUnchanged AcceptFollowsTendermint
CHECK_DEADLOCK FALSE
