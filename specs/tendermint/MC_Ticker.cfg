SPECIFICATION Spec
CONSTANTS
  Heights = {1, 2}
  RoundsT = {0, 1}
  Steps = {1, 3, 5, 7}
  MaxOps = 3
VIEW view
PROPERTIES NewerRoundAlwaysSet Monotone
CHECK_DEADLOCK FALSE
