--------------------------------- MODULE Ticker ---------------------------------
(* gemmill/consensus/pbft/ticker.go: timeoutTicker.timeoutRoutine keeps ONE timer.  A tick for an older        *)
(* height/round/step than the last accepted one is ignored; any other tick replaces the running timer.         *)
(* Fire = the timer expires and the tick is relayed to the tock channel.  This is the rule Tendermint.tla uses *)
(* (operator Schedule); here it is explored on its own so that every edge can be replayed on the REAL ticker.  *)
EXTENDS Integers, Sequences

CONSTANTS Heights, RoundsT, Steps, MaxOps

VARIABLES timer, armed, ops, res
vars == <<timer, armed, ops, res>>
view == <<timer, armed, ops>>

None == [h |-> 0, r |-> 0, st |-> 0]

Init == timer = None /\ armed = FALSE /\ ops = 0 /\ res = "init"

Older(h, r, st) ==
  LET ti == timer IN
  h < ti.h \/ (h = ti.h /\ r < ti.r) \/ (h = ti.h /\ r = ti.r /\ ti.st > 0 /\ st <= ti.st)

\* result is an argument so that graph edges carry it: "ignored" | "set"
Schedule(h, r, st, out) ==
  /\ ops < MaxOps
  /\ out = IF Older(h, r, st) THEN "ignored" ELSE "set"
  /\ IF out = "set" THEN timer' = [h |-> h, r |-> r, st |-> st] /\ armed' = TRUE
                    ELSE UNCHANGED <<timer, armed>>
  /\ ops' = ops + 1 /\ res' = out

Fire ==
  /\ armed
  /\ armed' = FALSE /\ res' = "tock" /\ UNCHANGED <<timer, ops>>

Next == \/ \E h \in Heights, r \in RoundsT, st \in Steps, out \in {"ignored", "set"} : Schedule(h, r, st, out)
        \/ Fire
Spec == Init /\ [][Next]_vars

\* a tick for a LATER round or height is never ignored (C12: the timeouts of a new round are always scheduled)
NewerRoundAlwaysSet ==
  [][\A h \in Heights, r \in RoundsT, st \in Steps :
       (h > timer.h \/ (h = timer.h /\ r > timer.r)) => ~Older(h, r, st)]_vars
\* the accepted ticks are monotone
Monotone == [][timer'.h > timer.h \/ (timer'.h = timer.h /\ timer'.r >= timer.r)]_vars
=================================================================================
