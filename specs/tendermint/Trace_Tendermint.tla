---------------------------- MODULE Trace_Tendermint ----------------------------
(* Trace validation: is an execution recorded from REAL goroutines (real receiveRoutine, real timeoutTicker,  *)
(* messages relayed between the nodes with random delay/duplication) a behaviour of Tendermint.tla?           *)
(* Every record of trace.ndjson is one input handled by one node (hook at the end of handleMsg/handleTimeout, *)
(* emitted under cs.mtx, ordered by a global atomic sequence number) with the round state after it.           *)
(* Each record must be explained by the corresponding spec action and the logged state must equal the spec's. *)
EXTENDS Tendermint, Json

Trace == ndJsonDeserialize("trace.ndjson")

VARIABLES l,      \* next record
          seen,   \* [Honest -> set of ticks the node's ticker ever accepted]
          used    \* [Honest -> set of ticks already delivered as timeouts]
tvars == <<node, net, byzUsed, crashes, act, l, seen, used>>

TraceInit == Init /\ l = 1 /\ seen = [n \in Honest |-> {node[n].timer}] /\ used = [n \in Honest |-> {}]

Ev == Trace[l]

\* logged projection of the node after the step
Matches(s, p) ==
  /\ s.h = p.h /\ s.r = p.r /\ s.st = p.st
  /\ s.lr = p.lr /\ s.lb = p.lb /\ s.cr = p.cr
  /\ s.pb = p.pb /\ s.prop = p.prop /\ s.pp = p.pp
  /\ Len(s.dec) = p.ndec

Book == /\ l' = l + 1
        /\ seen' = [n \in Honest |-> seen[n] \cup {node'[n].timer}]

TInternal ==
  /\ Ev.a = "Internal"
  /\ Internal(Ev.n)
  /\ act'[3] = Ev.m                          \* the message taken from the queue is the logged one
  /\ Matches(node'[Ev.n], Ev.post)
  /\ Book /\ UNCHANGED used

Applicable(n, m) ==
  /\ ~(m.t = "V" /\ m.by = n)
  /\ m.h = node[n].h \/ (m.t = "V" /\ m.h + 1 = node[n].h)

\* The round of a block part message carries no information: addProposalBlockPart ignores it ("blocks might be reused, so
\* round mismatch is OK", and so does AddPart above), and the reactor's catch-up gossip stamps the parts it reads from the
\* block store with the round it believes the PEER to be in, not with the round the block was proposed in. Causality of a
\* part is therefore: some part message of the same height for the same block was made visible before.
SameBlock(m) == {x \in net : x.t = "B" /\ x.h = m.h /\ x.v = m.v}
Norm(m) == IF m.t = "B" /\ m \notin net /\ SameBlock(m) # {} THEN CHOOSE x \in SameBlock(m) : TRUE ELSE m

TPeer ==
  /\ Ev.a = "Peer"
  /\ LET m == Norm(Ev.m) IN
       /\ m \in net                           \* causality: made visible by its author before
       /\ IF Applicable(Ev.n, m)
            THEN PeerP(Ev.n, m, IF Ev.pk \in Vals THEN Ev.pk ELSE (IF m.t = "V" THEN m.by ELSE Ev.n))
            ELSE UNCHANGED vars                \* other height / own vote echoed: the handler ignores it
  /\ Matches(node'[Ev.n], Ev.post)
  /\ Book /\ UNCHANGED used

\* a message signed by a Byzantine validator (or a part of the adversary's block): whatever it is, the adversary may send it;
\* once an honest node has taken it in, it is visible to the others (they gossip what they hold)
TByz ==
  /\ Ev.a = "Byz"
  /\ LET n == Ev.n  m == Ev.m
         new == IF Applicable(n, m) THEN HandleMsg(n, node[n], m) ELSE node[n] IN
       /\ node' = [node EXCEPT ![n] = new]
       /\ net' = IF new # node[n] THEN net \cup {m} ELSE net
       /\ act' = <<"Byz", n, m>>
       /\ UNCHANGED <<byzUsed, crashes>>
  /\ Matches(node'[Ev.n], Ev.post)
  /\ Book /\ UNCHANGED used

\* the real ticker fired and its tock was handled (stale tocks are dropped before the handler and not logged)
TTimeout ==
  /\ Ev.a = "Timeout"
  /\ LET n == Ev.n  ti == Ev.ti IN
       /\ ti \in seen[n] /\ ti \notin used[n]
       /\ node' = [node EXCEPT ![n] = HandleTimeout(n, IF @.timer = ti THEN [@ EXCEPT !.armed = FALSE] ELSE @, ti)]
       /\ used' = [used EXCEPT ![n] = @ \cup {ti}]
       /\ act' = <<"Timeout", n, ti>>
       /\ UNCHANGED <<net, byzUsed, crashes>>
       /\ Matches(node'[n], Ev.post)
  /\ Book

TraceNext == l <= Len(Trace) /\ (TInternal \/ TPeer \/ TByz \/ TTimeout)
TraceSpec == TraceInit /\ [][TraceNext]_tvars

\* the whole trace was consumed: one state per record plus the initial state
TraceAccepted == TLCGet("stats").diameter - 1 = Len(Trace)
TraceView == <<view, l, seen, used>>
=================================================================================
