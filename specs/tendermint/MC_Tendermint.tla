----------------------------- MODULE MC_Tendermint -----------------------------
EXTENDS Tendermint
\* proposer tables; the engine regenerates MC_Tables.tla from the real ValidatorSet before every run
P1111 == [i \in 1..4 |-> 1]
P112  == (1 :> 1) @@ (2 :> 1) @@ (3 :> 2)
RR4   == [h \in 1..3 |-> [r \in 0..3 |-> ((h - 1 + r) % 4) + 1]]
RR4s  == [h \in 1..3 |-> (h % 4) + 1]
==================================================================================
