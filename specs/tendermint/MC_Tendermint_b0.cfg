SPECIFICATION Spec
CONSTANTS
  N = 4
  Power <- P1111
  Byz = {4}
  MaxRound = 1
  MaxHeight = 1
  LiveProp <- RR4
  StaleProp <- RR4s
  NByzVals = 1
  ByzBudget = 0
  MaxCrashes = 0
  CrashSet = {}
  OwnFirst = TRUE
  UsefulOnly = TRUE
VIEW view
CONSTRAINT Bounded
INVARIANTS TypeOK Agreement ValidityOfDecided CommitHasSingleRoundQuorum NoRuleBroken LockJustified NoEquivocationSent
PROPERTIES DecAppendOnly UnlockOnlyOnLaterPolka
CHECK_DEADLOCK FALSE
