-------------------------------- MODULE Tendermint --------------------------------
(* gemmill/consensus/pbft — the round state machine as implemented (state.go, height_vote_set.go,  *)
(* ticker.go, wal.go, replay.go) for N validators of which Byz are Byzantine.                       *)
(*                                                                                                  *)
(* System actions are exactly the select cases of receiveRoutine, nothing coarser:                  *)
(*   Internal(n)   own proposal / block part / vote taken from internalMsgQueue (wal.Save; handle)   *)
(*   Peer(n,m)     a message some honest node made visible, delivered to n (any order, duplication, *)
(*                 loss = never delivered)                                                          *)
(*   Byz(n,m)      the adversary hands a message carrying a Byzantine signature to n                *)
(*   Fire(n)       the ticker's timer expires: the scheduled timeout becomes a tock in flight       *)
(*   Timeout(n,t)  a tock (possibly stale) is handled                                               *)
(*   Crash(n) / Restart(n)   process death; NewConsensusState + OnStart (catchupReplay of the WAL)   *)
(* Each Go function enterX is an operator from node record to node record; guards are copied        *)
(* verbatim, deferred bodies run last, call chains are nested as in the Go source.                  *)
EXTENDS Integers, FiniteSets, Sequences, TLC

CONSTANTS
  N,            \* validators 1..N (index order = address order)
  Power,        \* [1..N -> Nat]: voting power at height 1 (0 = not a validator)
  NextPower,    \* [subset of 2..MaxHeight+1 -> [1..N -> Nat]]: power at later heights where it differs (validator-set changes)
  Byz,          \* SUBSET 1..N, Byzantine validators
  MaxRound,     \* rounds 0..MaxRound are explored (<= 3: the per-peer catch-up round limit never binds)
  MaxHeight,    \* heights 1..MaxHeight
  LiveProp,     \* [1..MaxHeight -> [0..MaxRound -> 1..N]]  proposer as computed by a running node
  StaleProp,    \* [1..MaxHeight -> 1..N]  round-0 proposer as computed from a validator set reloaded from disk
  NByzVals,     \* number of distinct valid blocks the adversary may invent per height
  ByzBudget,    \* max number of Byz(n,m) steps (-1 = unbounded)
  MaxCrashes,   \* max number of Crash steps in total (0 disables crash/restart)
  CrashSet,     \* honest nodes that may crash
  OwnFirst,     \* TRUE: a node with a non-empty internal queue takes only Internal steps (exhaustive configs)
  UsefulOnly,   \* TRUE: deliveries that leave the receiver unchanged are not explored (exhaustive configs)
  Sync,         \* TRUE: partial synchrony - a timer fires only when nothing useful can be delivered to the node
  Torn          \* TRUE: a crash may tear the last WAL record (the input it logged is lost on replay)

Vals   == 1..N
Honest == Vals \ Byz
Rounds == 0..MaxRound
Nil    == <<"nil">>   \* the nil vote (values are tuples so that TLC can compare them)
None   == <<"none">>  \* absence of a value

\* step numbers as in RoundStepType
NewHeight == 1   NewRound == 2   Propose == 3   Prevote == 4   PrevoteWait == 5
Precommit == 6   PrecommitWait == 7   Commit == 8
\* signer steps as in priv_validator.go
SPropose == 1  SPrevote == 2  SPrecommit == 3

VARIABLES
  node,     \* [Honest -> node record], see InitNode
  net,      \* set of messages made visible by honest nodes
  byzUsed,  \* number of Byz steps taken
  crashes,  \* number of Crash steps taken
  act       \* output only: last action (for replay)

vars == <<node, net, byzUsed, crashes, act>>
view == <<node, net, byzUsed, crashes>>

-----------------------------------------------------------------------------------
(* Values (blocks).  An honest proposer that is not locked creates a fresh block, named by where it *)
(* was created.  The adversary owns NByzVals valid blocks per height and one invalid block.         *)
HVal(h, r, p, k) == <<"H", h, r, p, k>>   \* k: incarnation of the proposer process (a re-created block differs: new time)
XVal(h, k)    == <<"X", h, k>>
IVal(h)       == <<"I", h, 0>>
ValidBlock(v) == v[1] # "I"
ByzVals(h)    == {XVal(h, k) : k \in 1..NByzVals} \cup {IVal(h)}

\* messages
PMsg(h, r, v, pol, by)  == [t |-> "P", h |-> h, r |-> r, v |-> v, pol |-> pol, by |-> by]
BMsg(h, r, v)           == [t |-> "B", h |-> h, r |-> r, v |-> v]
VMsg(h, r, ty, by, v)   == [t |-> "V", h |-> h, r |-> r, ty |-> ty, by |-> by, v |-> v]

\* the validator set in force at height h (State.Validators for the block of height h); the last NextPower entry <= h applies
Pw(h) == LET c == {k \in DOMAIN NextPower : k <= h}
         IN IF c = {} THEN Power ELSE NextPower[CHOOSE k \in c : \A q \in c : q <= k]
PowerOf(h, S) == LET pw == Pw(h)
                     RECURSIVE P(_)
                     P(T) == IF T = {} THEN 0 ELSE LET x == CHOOSE y \in T : TRUE IN pw[x] + P(T \ {x})
                 IN P(S)
Total(h) == PowerOf(h, Vals)
Member(h, i) == Pw(h)[i] > 0

\* one VoteSet: [Vals -> value | Nil | None]; conflicting votes are dropped (no peer maj23 claims here)
EmptyVS    == [i \in Vals |-> None]
VotersOf(vs, v) == {i \in Vals : vs[i] = v}
HasAny(h, vs) == 3 * PowerOf(h, {i \in Vals : vs[i] # None}) > 2 * Total(h)
MajOf(h, vs) == LET c == {v \in {vs[i] : i \in Vals} \ {None} : 3 * PowerOf(h, VotersOf(vs, v)) > 2 * Total(h)}
              IN IF c = {} THEN None ELSE CHOOSE v \in c : TRUE
HasMaj(h, vs) == MajOf(h, vs) # None
HasAll(h, vs) == \A i \in Vals : Member(h, i) => vs[i] # None

EmptyRounds == [r \in Rounds |-> EmptyVS]

NoTimer == [h |-> 0, r |-> 0, st |-> 0]
NoProp   == [v |-> None, pol |-> -1]
NoParts  == [v |-> None, done |-> FALSE]
NoCommit == [r |-> -1, vs |-> EmptyVS, c |-> EmptyVS]
NoSig    == [h |-> 0, r |-> 0, s |-> 0, b |-> <<"none">>]

InitNode(h, lastCommit) ==
  [ h |-> h, r |-> 0, st |-> NewHeight,
    prop |-> NoProp,        \* cs.Proposal: [v, pol] (v = block named by the parts header)
    pb   |-> None,          \* cs.ProposalBlock
    pp   |-> NoParts,       \* cs.ProposalBlockParts: [v, done]
    lr   |-> 0, lb |-> None,\* LockedRound (0 when unlocked, as in the code), LockedBlock
    pv   |-> EmptyRounds, pc |-> EmptyRounds,   \* cs.Votes: the votes that are TALLIED (first vote of each validator)
    pvc  |-> EmptyRounds, pcc |-> EmptyRounds,  \* ... and VoteSet.votes, the canonical vote shown to others: a conflicting
                                                \* vote for the block that has +2/3 replaces the first one there
    rs   |-> {0},           \* rounds for which HeightVoteSet holds vote sets (0..cs.Round+1 and peer catch-up rounds)
    catch |-> [p \in Vals |-> {}],   \* peerCatchupRounds: at most 2 unexpected rounds per peer
    cr   |-> -1,            \* CommitRound
    lc   |-> lastCommit,    \* cs.LastCommit: [r, vs (tallied), c (canonical)]
    stale |-> FALSE,        \* validator set came from disk: cached proposer missing (round 0 only)
    iq   |-> <<>>,          \* internalMsgQueue
    timer |-> NoTimer, armed |-> FALSE,  \* timeoutTicker: last accepted tick, timer running?
    tocks |-> {},           \* fired timeouts in flight
    sig  |-> NoSig,   \* PrivValidator Last{Height,Round,Step,SignBytes}
    dec  |-> <<>>,          \* blocks committed so far (block store)
    seen |-> NoCommit,          \* SeenCommit stored with the last block: [r, vs]
    wal  |-> <<>>,          \* WAL records since the last #HEIGHT marker
    inc  |-> 0,             \* number of restarts of this process so far
    torn |-> FALSE,         \* the process died while writing its last WAL record
    wbase |-> 0,            \* number of WAL records (of this height) written by earlier incarnations of the process
    up   |-> TRUE,          \* process alive
    bad  |-> "ok" ]         \* set when the transcribed code would break a rule of C04/C02 (checked as invariant)

Init ==
  /\ node = [n \in Honest |-> [InitNode(1, NoCommit) EXCEPT !.timer = [h |-> 1, r |-> 0, st |-> NewHeight],
                                                          !.armed = TRUE]]   \* OnStart: scheduleRound0
  /\ net = {}
  /\ byzUsed = 0
  /\ crashes = 0
  /\ act = <<"Init">>

-----------------------------------------------------------------------------------
(* Proposer as node n computes it *)
Proposer(s) == IF s.stale /\ s.r = 0 THEN StaleProp[s.h] ELSE LiveProp[s.h][s.r]

(* timeoutTicker.timeoutRoutine: a tick replaces the running timer unless it is older *)
Schedule(s, h, r, st) ==
  LET ti == s.timer IN
  IF h < ti.h \/ (h = ti.h /\ r < ti.r) \/ (h = ti.h /\ r = ti.r /\ ti.st > 0 /\ st <= ti.st)
    THEN s
    ELSE [s EXCEPT !.timer = [h |-> h, r |-> r, st |-> st], !.armed = TRUE]

(* PrivValidator.signBytesHRS: sign iff not a regression; same HRS with same bytes returns the cached signature *)
CanSign(s, h, r, st, b) ==
  LET g == s.sig IN
  \/ g.h < h
  \/ g.h = h /\ g.r < r
  \/ g.h = h /\ g.r = r /\ g.s < st
  \/ g.h = h /\ g.r = r /\ g.s = st /\ g.b = b
Signed(s, h, r, st, b) == [s EXCEPT !.sig = [h |-> h, r |-> r, s |-> st, b |-> b]]

TrackWAL == MaxCrashes > 0
\* Durations (ms) of the step timers (state.go TimeoutParams with the configuration the replay harness sets: 3000/500, 1000/500,
\* 1000/500, commit 1000). The model itself is untimed - a timer is armed or not - but liveness under partial synchrony
\* (C12) rests on the waits growing without bound with the round, so the replay driver checks every ScheduleTimeout call of
\* the real nodes against this function (csim.CheckTimeoutDurations, key oracle:timeout-duration).
TimeoutMs(step, r) == CASE step = 3 -> 3000 + 500 * r      \* RoundStepPropose
                        [] step = 5 -> 1000 + 500 * r      \* RoundStepPrevoteWait
                        [] step = 7 -> 1000 + 500 * r      \* RoundStepPrecommitWait
                        [] step = 2 -> 0                   \* RoundStepNewRound (fires at once)
                        [] OTHER -> 1000                   \* RoundStepNewHeight: at most timeout_commit
TimeoutsGrow == \A step \in {3, 5, 7}, r \in 0..MaxRound : TimeoutMs(step, r + 1) > TimeoutMs(step, r)
ASSUME TimeoutsGrow

StepRec(w) == IF TrackWAL THEN Append(w, <<"S">>) ELSE w     \* newStep -> wal.Save(RoundStateEvent)

Mark(s, why) == IF s.bad = "ok" THEN [s EXCEPT !.bad = why] ELSE s

(* signAddVote: sign with cs.Height/cs.Round and push on the internal queue.  The rule checks of   *)
(* C04 are evaluated here, on the state the code has at this very moment.                          *)
Vote(n, s, ty, v) ==
  LET st == IF ty = "pv" THEN SPrevote ELSE SPrecommit
      m  == VMsg(s.h, s.r, ty, n, v)
      s1 == IF ty = "pv" /\ s.lb # None /\ v # s.lb THEN Mark(s, "PrevoteAgainstLock")
            ELSE IF ty = "pc" /\ v # Nil /\ MajOf(s.h, s.pv[s.r]) # v THEN Mark(s, "PrecommitWithoutOwnPolka")
            ELSE IF ty = "pc" /\ v # Nil /\ (s.lb # v \/ s.lr # s.r) THEN Mark(s, "PrecommitWithoutLock")
            ELSE s
  IN IF ~Member(s.h, n) THEN s                     \* signAddVote: we are not in the validator set
     ELSE IF CanSign(s1, s.h, s.r, st, <<"v", m.v>>)
       THEN [Signed(s1, s.h, s.r, st, <<"v", m.v>>) EXCEPT !.iq = Append(@, m)]
       ELSE s1

IsProposalComplete(s) ==
  /\ s.prop.v # None /\ s.pb # None
  /\ (s.prop.pol < 0 \/ (s.prop.pol \in Rounds /\ HasMaj(s.h, s.pv[s.prop.pol])))

(* HeightVoteSet.POLInfo: last round <= hvs.round (= cs.Round+1) with +2/3 prevotes for a block or nil *)
POLRound(s) ==
  LET c == {r \in Rounds : r <= s.r + 1 /\ HasMaj(s.h, s.pv[r])}
  IN IF c = {} THEN -1 ELSE CHOOSE r \in c : \A q \in c : q <= r

-----------------------------------------------------------------------------------
(* state.go, in call order.  RECURSIVE because the Go functions call each other. *)
RECURSIVE EnterNewRound(_, _, _, _), EnterPropose(_, _, _, _), EnterPrevote(_, _, _, _),
          EnterPrevoteWait(_, _, _, _), EnterPrecommit(_, _, _, _), EnterPrecommitWait(_, _, _, _),
          EnterCommit(_, _, _, _), TryFinalizeCommit(_, _, _), FinalizeCommit(_, _, _)

(* defaultDecideProposal *)
DecideProposal(n, s) ==
  LET v   == IF s.lb # None THEN s.lb ELSE HVal(s.h, s.r, n, s.inc)
      pol == POLRound(s)
      polv == IF pol < 0 THEN None ELSE MajOf(s.h, s.pv[pol])
      b   == <<"p", v, pol, polv>>                       \* what the proposal sign-bytes cover
      \* createProposalBlock fails when the previous commit is missing ("shouldn't happen")
      can == s.lb # None \/ s.h = 1 \/ (s.lc.r >= 0 /\ HasMaj(s.h - 1, s.lc.vs))
      s1  == IF s.lb # None /\ v # s.lb THEN Mark(s, "ProposeAgainstLock") ELSE s
  IN IF can /\ CanSign(s1, s.h, s.r, SPropose, b)
       THEN [Signed(s1, s.h, s.r, SPropose, b) EXCEPT
               !.iq = @ \o <<PMsg(s.h, s.r, v, pol, n), BMsg(s.h, s.r, v)>>]
       ELSE s1

EnterNewRound(n, s, h, r) ==
  IF s.h # h \/ r < s.r \/ (s.r = r /\ s.st # NewHeight) THEN s
  ELSE LET s1 == [s EXCEPT !.r = r, !.st = NewRound,
                          !.rs = @ \cup (0..(r + 1)),                \* cs.Votes.SetRound(round + 1)
                          !.stale = IF s.r < r THEN FALSE ELSE @,   \* IncrementAccum recomputes the proposer
                          !.prop = IF r = 0 THEN @ ELSE NoProp,
                          !.pb   = IF r = 0 THEN @ ELSE None,
                          !.pp   = IF r = 0 THEN @ ELSE NoParts]
       IN EnterPropose(n, s1, h, r)

EnterPropose(n, s, h, r) ==
  IF s.h # h \/ r < s.r \/ (s.r = r /\ Propose <= s.st) THEN s
  ELSE LET s1 == Schedule(s, h, r, Propose)
           s2 == IF Proposer(s1) = n THEN DecideProposal(n, s1) ELSE s1
           s3 == [s2 EXCEPT !.r = r, !.st = Propose, !.wal = StepRec(@)]      \* deferred
       IN IF IsProposalComplete(s3) THEN EnterPrevote(n, s3, h, s3.r) ELSE s3

(* defaultDoPrevote *)
DoPrevote(n, s) ==
  IF s.lb # None THEN Vote(n, s, "pv", s.lb)
  ELSE IF s.pb = None THEN Vote(n, s, "pv", Nil)
  ELSE IF ~ValidBlock(s.pb) THEN Vote(n, s, "pv", Nil)
  ELSE Vote(n, s, "pv", s.pb)

EnterPrevote(n, s, h, r) ==
  IF s.h # h \/ r < s.r \/ (s.r = r /\ Prevote <= s.st) THEN s
  ELSE [DoPrevote(n, s) EXCEPT !.r = r, !.st = Prevote, !.wal = StepRec(@)]

EnterPrevoteWait(n, s, h, r) ==
  IF s.h # h \/ r < s.r \/ (s.r = r /\ PrevoteWait <= s.st) THEN s
  ELSE IF ~HasAny(s.h, s.pv[r]) THEN Mark(s, "PANIC enterPrevoteWait without +2/3 any")
  ELSE [Schedule(s, h, r, PrevoteWait) EXCEPT !.r = r, !.st = PrevoteWait, !.wal = StepRec(@)]

EnterPrecommit(n, s, h, r) ==
  IF s.h # h \/ r < s.r \/ (s.r = r /\ Precommit <= s.st) THEN s
  ELSE LET maj  == MajOf(s.h, s.pv[r])
           done(x) == [x EXCEPT !.r = r, !.st = Precommit, !.wal = StepRec(@)]
       IN IF maj = None THEN done(Vote(n, s, "pc", Nil))
          ELSE IF maj = Nil THEN done(Vote(n, [s EXCEPT !.lr = 0, !.lb = None], "pc", Nil))
          ELSE IF s.lb = maj THEN done(Vote(n, [s EXCEPT !.lr = r], "pc", maj))                 \* relock
          ELSE IF s.pb = maj THEN
                 (IF ~ValidBlock(maj) THEN Mark(s, "PANIC +2/3 prevoted an invalid block")
                  ELSE done(Vote(n, [s EXCEPT !.lr = r, !.lb = maj], "pc", maj)))               \* lock
          ELSE \* polka for a block we do not have: unlock, fetch it, precommit nil
               LET s1 == [s EXCEPT !.lr = 0, !.lb = None,
                                   !.pb = IF s.pp.v = maj THEN @ ELSE None,
                                   !.pp = IF s.pp.v = maj THEN @ ELSE [v |-> maj, done |-> FALSE]]
               IN done(Vote(n, s1, "pc", Nil))

EnterPrecommitWait(n, s, h, r) ==
  IF s.h # h \/ r < s.r \/ (s.r = r /\ PrecommitWait <= s.st) THEN s
  ELSE IF ~HasAny(s.h, s.pc[r]) THEN Mark(s, "PANIC enterPrecommitWait without +2/3 any")
  ELSE [Schedule(s, h, r, PrecommitWait) EXCEPT !.r = r, !.st = PrecommitWait, !.wal = StepRec(@)]

EnterCommit(n, s, h, cr) ==
  IF s.h # h \/ Commit <= s.st THEN s
  ELSE LET maj == MajOf(s.h, s.pc[cr])
           s1  == IF s.lb # None /\ s.lb = maj
                    THEN [s EXCEPT !.pb = s.lb, !.pp = [v |-> s.lb, done |-> TRUE]] ELSE s
           s2  == IF s1.pb # maj /\ s1.pp.v # maj
                    THEN [s1 EXCEPT !.pb = None, !.pp = [v |-> maj, done |-> FALSE]] ELSE s1
           s3  == [s2 EXCEPT !.st = Commit, !.cr = cr, !.wal = StepRec(@)]                 \* deferred
       IN IF maj = None \/ maj = Nil THEN Mark(s, "PANIC enterCommit without +2/3 precommits for a block")
          ELSE TryFinalizeCommit(n, s3, h)

TryFinalizeCommit(n, s, h) ==
  LET maj == MajOf(s.h, s.pc[s.cr]) IN
  IF maj = None \/ maj = Nil THEN s
  ELSE IF s.pb # maj THEN s
  ELSE FinalizeCommit(n, s, h)

(* finalizeCommit: SaveBlock, ApplyBlock, state.Save, updateToState, scheduleRound0 *)
FinalizeCommit(n, s, h) ==
  IF s.h # h \/ s.st # Commit THEN s
  ELSE LET maj == MajOf(s.h, s.pc[s.cr])
           s0  == IF ~ValidBlock(maj) THEN Mark(s, "PANIC +2/3 committed an invalid block")
                  ELSE IF 3 * PowerOf(s.h, VotersOf(s.pc[s.cr], maj)) <= 2 * Total(s.h) THEN Mark(s, "CommitWithoutQuorum")
                  ELSE s
           fresh == InitNode(h + 1, [r |-> s.cr, vs |-> s.pc[s.cr], c |-> s.pcc[s.cr]])
           s1  == [fresh EXCEPT !.dec = Append(s0.dec, maj), !.seen = [r |-> s.cr, vs |-> s.pcc[s.cr], c |-> s.pcc[s.cr]],    \* MakeCommit copies VoteSet.votes
                                !.iq = s0.iq, !.timer = s0.timer,
                                !.armed = s0.armed, !.tocks = s0.tocks, !.sig = s0.sig,
                                !.wal = IF TrackWAL THEN <<<<"S">>>> ELSE <<>>,   \* updateToState -> newStep: #HEIGHT + step
                                !.bad = s0.bad, !.inc = s0.inc, !.wbase = 0]
       IN Schedule(s1, h + 1, 0, NewHeight)

-----------------------------------------------------------------------------------
(* handleMsg *)

(* defaultSetProposal *)
SetProposal(n, s, m) ==
  IF s.prop.v # None THEN s
  ELSE IF m.h # s.h \/ m.r # s.r THEN s
  ELSE IF Commit <= s.st THEN s
  ELSE IF m.pol # -1 /\ (m.pol < 0 \/ m.r <= m.pol) THEN s
  ELSE IF m.by # Proposer(s) THEN s                                    \* signature of the expected proposer
  ELSE [s EXCEPT !.prop = [v |-> m.v, pol |-> m.pol], !.pp = [v |-> m.v, done |-> FALSE]]

(* addProposalBlockPart (blocks are one part; a part proves membership in its own header only) *)
AddPart(n, s, m) ==
  IF s.h # m.h THEN s
  ELSE IF s.pp.v = None THEN s
  ELSE IF s.pp.v # m.v THEN s             \* proof does not match the header: error
  ELSE IF s.pp.done THEN s                \* duplicate part
  ELSE LET s1 == [s EXCEPT !.pp = [v |-> m.v, done |-> TRUE], !.pb = m.v]
       IN IF s1.st = Propose /\ IsProposalComplete(s1) THEN EnterPrevote(n, s1, s1.h, s1.r)
          ELSE IF s1.st = Commit THEN TryFinalizeCommit(n, s1, s1.h)
          ELSE s1

(* addVote *)
(* pk: the peer the message came from (HeightVoteSet.peerCatchupRounds is keyed by the delivering peer); the scheduler-driven
   runs deliver a vote under its author's key *)
AddVoteP(n, s, m, pk) ==
  IF m.h + 1 = s.h THEN
      \* straggler precommit for the previous height
      IF ~(s.st = NewHeight /\ m.ty = "pc") \/ s.lc.r < 0 THEN s
      ELSE IF ~Member(s.h - 1, m.by) THEN s
      ELSE IF m.r # s.lc.r THEN s
      ELSE IF s.lc.vs[m.by] # None
        THEN (IF s.lc.vs[m.by] # m.v /\ s.lc.c[m.by] # m.v /\ MajOf(s.h - 1, s.lc.vs) = m.v
                THEN [s EXCEPT !.lc.c[m.by] = m.v] ELSE s)
      ELSE [s EXCEPT !.lc.vs[m.by] = m.v, !.lc.c[m.by] = m.v]     \* (SkipTimeoutCommit = false in this model)
  ELSE IF m.h # s.h THEN s
  ELSE IF ~Member(s.h, m.by) THEN s                 \* not in the validator set of this height
  ELSE IF m.r \notin Rounds THEN s
  ELSE IF m.r \notin s.rs /\ Cardinality(s.catch[pk]) >= 2 THEN s     \* third unexpected round of this peer: dropped
  ELSE LET h == s.h
           s0 == IF m.r \in s.rs THEN s
                 ELSE [s EXCEPT !.rs = @ \cup {m.r}, !.catch[pk] = @ \cup {m.r}] IN
    IF m.ty = "pv" THEN
      IF s.pv[m.r][m.by] # None                  \* duplicate, or conflicting vote (reported, not counted)
        THEN (IF s.pv[m.r][m.by] # m.v /\ s.pvc[m.r][m.by] # m.v /\ MajOf(s.h, s.pv[m.r]) = m.v
                THEN [s0 EXCEPT !.pvc[m.r][m.by] = m.v] ELSE s0)
      ELSE LET s1  == [s0 EXCEPT !.pv[m.r][m.by] = m.v, !.pvc[m.r][m.by] = m.v]
               pvs == s1.pv[m.r]
               \* unlock if these prevotes are a valid POL for something else
               s2  == IF s1.lb # None /\ s1.lr < m.r /\ m.r <= s1.r /\ HasMaj(s.h, pvs) /\ MajOf(s.h, pvs) # s1.lb
                        THEN [s1 EXCEPT !.lr = 0, !.lb = None] ELSE s1
           IN IF s2.r <= m.r /\ HasAny(s.h, pvs)
                THEN LET s3 == EnterNewRound(n, s2, h, m.r)
                     IN IF HasMaj(s.h, pvs) THEN EnterPrecommit(n, s3, h, m.r)
                        ELSE EnterPrevoteWait(n, EnterPrevote(n, s3, h, m.r), h, m.r)
              ELSE IF s2.prop.v # None /\ 0 <= s2.prop.pol /\ s2.prop.pol = m.r
                THEN (IF IsProposalComplete(s2) THEN EnterPrevote(n, s2, h, s2.r) ELSE s2)
              ELSE s2
    ELSE
      IF s.pc[m.r][m.by] # None
        THEN (IF s.pc[m.r][m.by] # m.v /\ s.pcc[m.r][m.by] # m.v /\ MajOf(s.h, s.pc[m.r]) = m.v
                THEN [s0 EXCEPT !.pcc[m.r][m.by] = m.v] ELSE s0)
      ELSE LET s1  == [s0 EXCEPT !.pc[m.r][m.by] = m.v, !.pcc[m.r][m.by] = m.v]
               pcs == s1.pc[m.r]
               maj == MajOf(s.h, pcs)
           IN IF maj # None
                THEN IF maj = Nil
                       THEN (IF m.r + 1 \in Rounds THEN EnterNewRound(n, s1, h, m.r + 1)
                             ELSE Mark(s1, "EXHAUSTED"))          \* round bound of the model reached
                       ELSE EnterCommit(n, EnterPrecommit(n, EnterNewRound(n, s1, h, m.r), h, m.r), h, m.r)
              ELSE IF s1.r <= m.r /\ HasAny(s.h, pcs)
                THEN EnterPrecommitWait(n, EnterPrecommit(n, EnterNewRound(n, s1, h, m.r), h, m.r), h, m.r)
              ELSE s1

AddVote(n, s, m) == AddVoteP(n, s, m, m.by)

HandleMsgP(n, s, m, pk) ==
  IF m.t = "P" THEN SetProposal(n, s, m)
  ELSE IF m.t = "B" THEN AddPart(n, s, m)
  ELSE AddVoteP(n, s, m, pk)
HandleMsg(n, s, m) == HandleMsgP(n, s, m, IF m.t = "V" THEN m.by ELSE n)

(* handleTimeout *)
HandleTimeout(n, s, ti) ==
  IF ti.h # s.h \/ ti.r < s.r \/ (ti.r = s.r /\ ti.st < s.st) THEN s
  ELSE IF ti.st = NewHeight THEN EnterNewRound(n, s, ti.h, 0)
  ELSE IF ti.st = Propose THEN EnterPrevote(n, s, ti.h, ti.r)
  ELSE IF ti.st = PrevoteWait THEN EnterPrecommit(n, s, ti.h, ti.r)
  ELSE IF ti.st = PrecommitWait THEN
         (IF ti.r + 1 \in Rounds THEN EnterNewRound(n, s, ti.h, ti.r + 1) ELSE Mark(s, "EXHAUSTED"))
  ELSE Mark(s, "PANIC invalid timeout step")

\* one WAL input record, then the handler (receiveRoutine)
Logged(s, rec) == IF TrackWAL THEN [s EXCEPT !.wal = Append(@, rec)] ELSE s

-----------------------------------------------------------------------------------
(* System actions *)
Active(n) == node[n].up /\ node[n].h <= MaxHeight /\ node[n].bad = "ok"

Internal(n) ==
  /\ Active(n) /\ node[n].iq # <<>>
  /\ LET s == node[n]
         m == Head(s.iq)
         s1 == [s EXCEPT !.iq = Tail(@)]
     IN /\ node' = [node EXCEPT ![n] = HandleMsg(n, Logged(s1, <<"M", m>>), m)]
        /\ net' = net \cup {m}             \* gossip reads cs.Proposal / ProposalBlockParts / Votes
        /\ act' = <<"Internal", n, m>>
  /\ UNCHANGED <<byzUsed, crashes>>

Quiet(n) == ~OwnFirst \/ node[n].iq = <<>>
Useful(n, m) == ~UsefulOnly \/ HandleMsg(n, node[n], m) # node[n]

Peer(n, m) ==
  /\ Active(n) /\ Quiet(n)
  /\ m \in net
  /\ ~(m.t = "V" /\ m.by = n)
  /\ m.h = node[n].h \/ (m.t = "V" /\ m.h + 1 = node[n].h)
  /\ Useful(n, m)
  /\ node' = [node EXCEPT ![n] = HandleMsg(n, Logged(node[n], <<"M", m>>), m)]
  /\ act' = <<"Peer", n, m>>
  /\ UNCHANGED <<net, byzUsed, crashes>>

\* the same delivery, through peer pk (real reactors relay other validators' votes)
PeerP(n, m, pk) ==
  /\ Active(n)
  /\ m \in net
  /\ ~(m.t = "V" /\ m.by = n)
  /\ m.h = node[n].h \/ (m.t = "V" /\ m.h + 1 = node[n].h)
  /\ node' = [node EXCEPT ![n] = HandleMsgP(n, Logged(node[n], <<"M", m>>), m, pk)]
  /\ act' = <<"Peer", n, m>>
  /\ UNCHANGED <<net, byzUsed, crashes>>

\* what the adversary can sign: votes of Byzantine validators for anything, proposals (valid only where a
\* Byzantine validator is the proposer the receiver expects) for its own blocks or blocks it has seen
SeenVals(h) == {m.v : m \in {x \in net : x.t \in {"P", "B"} /\ x.h = h}}
ByzMsgs(n) ==
  LET s == node[n] h == s.h
      vals == SeenVals(h) \cup ByzVals(h) IN
  {VMsg(h, r, ty, b, v) : r \in Rounds, ty \in {"pv", "pc"}, b \in Byz, v \in vals \cup {Nil}}
  \cup {PMsg(h, r, v, pol, b) : r \in {s.r}, v \in vals, pol \in -1..(s.r - 1), b \in Byz}
  \cup {BMsg(h, s.r, v) : v \in ByzVals(h)}

ByzStep(n, m) ==
  /\ Active(n) /\ Quiet(n)
  /\ ByzBudget < 0 \/ byzUsed < ByzBudget
  /\ m \in ByzMsgs(n)
  /\ Useful(n, m)
  /\ node' = [node EXCEPT ![n] = HandleMsg(n, Logged(node[n], <<"M", m>>), m)]
  \* an honest node gossips whatever it accepted (its vote sets, its proposal, its block parts): the adversary's
  \* message becomes visible to everybody once one honest node has taken it in
  /\ net' = IF HandleMsg(n, node[n], m) # node[n] THEN net \cup {m} ELSE net
  /\ byzUsed' = byzUsed + 1
  /\ act' = <<"Byz", n, m>>
  /\ UNCHANGED crashes

\* something that would change node n is deliverable right now
Pending(n) == \/ node[n].iq # <<>>
              \/ \E m \in net : /\ ~(m.t = "V" /\ m.by = n)
                                /\ (m.h = node[n].h \/ (m.t = "V" /\ m.h + 1 = node[n].h))
                                /\ HandleMsg(n, node[n], m) # node[n]
              \/ node[n].tocks # {}

Fire(n) ==
  /\ Active(n) /\ Quiet(n) /\ node[n].armed
  /\ Sync => ~Pending(n)
  /\ node' = [node EXCEPT ![n] = [@ EXCEPT !.armed = FALSE, !.tocks = @ \cup {node[n].timer}]]
  /\ act' = <<"Fire", n>>
  /\ UNCHANGED <<net, byzUsed, crashes>>

Timeout(n, ti) ==
  /\ Active(n) /\ Quiet(n)
  /\ ti \in node[n].tocks
  /\ LET s == [node[n] EXCEPT !.tocks = @ \ {ti}]
     IN node' = [node EXCEPT ![n] = HandleTimeout(n, Logged(s, <<"T", ti>>), ti)]
  /\ act' = <<"Timeout", n, ti>>
  /\ UNCHANGED <<net, byzUsed, crashes>>

(* kill -9: everything volatile is lost; the block store (dec), the signer file (sig) and the WAL survive *)
Crash(n) ==
  /\ n \in CrashSet /\ crashes < MaxCrashes
  /\ Active(n)
  /\ node' = [node EXCEPT ![n] = [@ EXCEPT !.up = FALSE]]
  /\ crashes' = crashes + 1
  /\ act' = <<"Crash", n>>
  /\ UNCHANGED <<net, byzUsed>>

(* the same, but the process died while the last WAL record was being written: that record is unreadable *)
CrashTorn(n) ==
  /\ Torn /\ n \in CrashSet /\ crashes < MaxCrashes
  /\ Active(n) /\ Len(node[n].wal) > node[n].wbase      \* only a record this process wrote can be torn
  /\ node' = [node EXCEPT ![n] = [@ EXCEPT !.up = FALSE, !.torn = TRUE, !.wal = SubSeq(@, 1, Len(@) - 1)]]
  /\ crashes' = crashes + 1
  /\ act' = <<"CrashTorn", n>>
  /\ UNCHANGED <<net, byzUsed>>

(* NewConsensusState(state) ; OnStart: catchupReplay feeds every WAL record after "#HEIGHT: h" through *)
(* handleMsg / handleTimeout (wal.Save is NOT called for them, newStep still appends step records);    *)
(* votes re-signed during replay land on the internal queue; then scheduleRound0.                      *)
RECURSIVE Replay(_, _, _)
Replay(n, s, recs) ==
  IF recs = <<>> THEN s
  ELSE LET rec == Head(recs)
           s1  == IF rec[1] = "M" THEN HandleMsg(n, s, rec[2])
                  ELSE IF rec[1] = "T" THEN HandleTimeout(n, s, rec[2])
                  ELSE s
       IN IF s1.h # s.h THEN s1       \* replay finished the height: the rest of the log belongs to h+1 (none)
          ELSE Replay(n, s1, Tail(recs))

Restart(n) ==
  /\ n \in Honest /\ ~node[n].up
  /\ LET old   == node[n]
         h     == Len(old.dec) + 1
         fresh == [InitNode(h, old.seen) EXCEPT !.dec = old.dec, !.seen = old.seen, !.sig = old.sig,
                                                !.stale = TRUE, !.inc = old.inc + 1]     \* reconstructLastCommit(SeenCommit)
         recs  == old.wal
         s1    == Replay(n, fresh, recs)
         s2    == IF s1.h = h THEN [s1 EXCEPT !.wal = recs \o @, !.wbase = Len(recs)] ELSE s1
     IN node' = [node EXCEPT ![n] = Schedule(s2, s2.h, 0, NewHeight)]
  /\ act' = <<"Restart", n>>
  /\ UNCHANGED <<net, byzUsed, crashes>>

Next ==
  \/ \E n \in Honest : Internal(n)
  \/ \E n \in Honest : \E m \in net : Peer(n, m)
  \/ \E n \in Honest : \E m \in ByzMsgs(n) : ByzStep(n, m)
  \/ \E n \in Honest : Fire(n)
  \/ \E n \in Honest : \E ti \in node[n].tocks : Timeout(n, ti)
  \/ \E n \in Honest : Crash(n)
  \/ \E n \in Honest : CrashTorn(n)
  \/ \E n \in Honest : Restart(n)

Spec == Init /\ [][Next]_vars

-----------------------------------------------------------------------------------
(* Properties *)

\* C01: no two honest nodes commit different blocks at a height; each chain is a sequence (linear by construction:
\* dec is appended only, checked by DecAppendOnly)
Agreement ==
  \A a, b \in Honest : \A h \in 1..MaxHeight :
     (h <= Len(node[a].dec) /\ h <= Len(node[b].dec)) => node[a].dec[h] = node[b].dec[h]

DecAppendOnly ==
  [][\A n \in Honest : Len(node[n].dec) <= Len(node'[n].dec)
                       /\ SubSeq(node'[n].dec, 1, Len(node[n].dec)) = node[n].dec]_vars

\* C02 (consensus part): only valid blocks are committed, and the stored last-commit has +2/3 for that block in one round
ValidityOfDecided == \A n \in Honest : \A h \in 1..Len(node[n].dec) : ValidBlock(node[n].dec[h])
CommitHasSingleRoundQuorum ==
  \A n \in Honest : (node[n].lc.r >= 0 /\ Len(node[n].dec) > 0 /\ node[n].h = Len(node[n].dec) + 1) =>
     3 * PowerOf(node[n].h - 1, VotersOf(node[n].lc.vs, node[n].dec[Len(node[n].dec)])) > 2 * Total(node[n].h - 1)

\* C04 + sanity of the transcription: no rule violation and no panic branch reached
NoRuleBroken == \A n \in Honest : node[n].bad \in {"ok", "EXHAUSTED"}

\* C04: the lock is justified and only released by a later polka (action property)
LockJustified ==
  \A n \in Honest : node[n].lb # None =>
     /\ node[n].lr \in Rounds
     /\ MajOf(node[n].h, node[n].pv[node[n].lr]) = node[n].lb
UnlockOnlyOnLaterPolka ==
  [][\A n \in Honest :
       (node[n].up /\ node'[n].up /\ node[n].lb # None /\ node'[n].lb # node[n].lb /\ node'[n].h = node[n].h) =>
          \E r \in Rounds : /\ r > node[n].lr
                            /\ HasMaj(node'[n].h, node'[n].pv[r])
                            /\ (MajOf(node'[n].h, node'[n].pv[r]) # node[n].lb)]_vars

\* C03 (as seen from consensus): an honest node never makes two different votes of one kind visible for one (h,r)
NoEquivocationSent ==
  \A m1, m2 \in net : (m1.t = "V" /\ m2.t = "V" /\ m1.by \in Honest /\ m1.by = m2.by /\ m1.h = m2.h /\ m1.r = m2.r
                        /\ m1.ty = m2.ty) => m1.v = m2.v

TypeOK == \A n \in Honest : /\ node[n].r \in 0..(MaxRound + 1)
                            /\ node[n].st \in 1..8
                            /\ node[n].lr \in Rounds

\* reachability witnesses (violated on purpose to generate behaviours)
NoDecision   == \A n \in Honest : node[n].dec = <<>>
NoLock       == \A n \in Honest : node[n].lb = None
NoRound1     == \A n \in Honest : node[n].r = 0
AllDecided(h) == \A n \in Honest : Len(node[n].dec) >= h

\* state constraint for bounded exploration
Bounded == \A n \in Honest : node[n].h <= MaxHeight + 1 /\ node[n].r <= MaxRound
-----------------------------------------------------------------------------------
(* C12: liveness.  Under partial synchrony (Sync) and fair scheduling every honest node decides every height  *)
(* unless the round bound of the model is exhausted.                                                           *)
Exhausted == \E n \in Honest : node[n].bad = "EXHAUSTED"
AllDone   == \A n \in Honest : Len(node[n].dec) >= MaxHeight
Done      == (AllDone \/ Exhausted) /\ UNCHANGED vars          \* terminal stuttering, so that deadlock = wedge
NextLive  == Next \/ Done
Fairness  == /\ \A n \in Honest : WF_vars(Internal(n))
             /\ \A n \in Honest : WF_vars(\E m \in net : Peer(n, m) /\ HandleMsg(n, node[n], m) # node[n])
             /\ \A n \in Honest : WF_vars(Fire(n))
             /\ \A n \in Honest : WF_vars(\E ti \in node[n].tocks : Timeout(n, ti))
             /\ \A n \in Honest : WF_vars(Restart(n))
LiveSpec  == Init /\ [][NextLive]_vars /\ Fairness
EventuallyDecide == <>(AllDone \/ Exhausted)
NeverExhausted   == ~Exhausted

(* more reachability goals for witness generation (C04) *)
NoUnlock  == [][\A n \in Honest : ~(node[n].lb # None /\ node'[n].lb = None /\ node'[n].h = node[n].h /\ node'[n].up)]_vars
NoRelock  == [][\A n \in Honest : ~(node[n].lb # None /\ node'[n].lb = node[n].lb /\ node'[n].lr > node[n].lr)]_vars
NoLockedProposal == \A m \in net : ~(m.t = "P" /\ m.pol >= 0)
NoPrevoteOfLock  == \A m \in net : ~(m.t = "V" /\ m.ty = "pv" /\ m.by \in Honest /\ m.v # Nil /\ m.r >= 1
                                      /\ node[m.by].up /\ node[m.by].h = m.h /\ node[m.by].lb = m.v /\ node[m.by].lr < m.r)
NoCommitFromLaterRound == \A n \in Honest : ~(node[n].lc.r >= 1)
NoRestartMidHeight == [][\A n \in Honest : ~(~node[n].up /\ node'[n].up /\ node'[n].st >= Prevote)]_vars
NoDecisionAfterCrash == ~(crashes >= 1 /\ \A n \in Honest : node[n].up /\ Len(node[n].dec) >= 1)
(* C07: after a restart the node has the votes it had received, the lock it held, the proposal and the step it had *)
(* reached when the last logged input was processed (the record of a crashed process keeps its last state).       *)
RestoredFields(s) == <<s.h, s.r, s.st, s.prop, s.pb, s.pp, s.lr, s.lb, s.pv, s.pc, s.pvc, s.pcc, s.cr, s.dec>>
ReplayRestores ==
  [][\A n \in Honest : (~node[n].up /\ node'[n].up /\ ~node[n].torn) =>
        RestoredFields(node'[n]) = RestoredFields(node[n])]_vars
\* the same, for the fields that do not depend on who the node believes the proposer is
RestoredVotes(s) == <<s.h, s.pv, s.pc, s.cr, s.dec>>
ReplayRestoresVotes ==
  [][\A n \in Honest : (~node[n].up /\ node'[n].up /\ ~node[n].torn) =>
        RestoredVotes(node'[n]) = RestoredVotes(node[n])]_vars

=====
