SPECIFICATION Spec
CONSTANTS
  MaxFiles = 3
  MaxHeight = 2
  MaxRecs = 2
  MaxCrashes = 1
  FixSearch = TRUE
  FixEmptyHead = FALSE
INVARIANTS TypeOK ReplayReadsLog ReplayNoError MarkersOrdered CurrentHeightFound
CHECK_DEADLOCK FALSE
