SPECIFICATION Spec
CONSTANTS
  MaxFiles = 4
  MaxHeight = 4
  MaxRecs = 5
  MaxCrashes = 3
  FixSearch = TRUE
  FixEmptyHead = TRUE
INVARIANTS TypeOK ReplayReadsLog ReplayNoError MarkersOrdered CurrentHeightFound
CHECK_DEADLOCK FALSE
