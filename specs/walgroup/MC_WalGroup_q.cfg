SPECIFICATION Spec
CONSTANTS
  MaxFiles = 3
  MaxHeight = 3
  MaxRecs = 3
  MaxCrashes = 2
  FixSearch = TRUE
  FixEmptyHead = TRUE
INVARIANTS TypeOK ReplayReadsLog ReplayNoError MarkersOrdered CurrentHeightFound
CHECK_DEADLOCK FALSE
