------------------------------ MODULE WalGroup ------------------------------
(***************************************************************************)
(* The consensus write-ahead log as a group of files: gemmill/modules/     *)
(* go-autofile/group.go (Group, GroupReader, Search) under                 *)
(* gemmill/consensus/pbft/wal.go (WAL.OnStart, Save, writeHeight) and the  *)
(* start sequence of ConsensusState.OnStart + catchupReplay (replay.go).   *)
(*                                                                         *)
(* Tendermint.tla treats the log of the current height as ONE sequence     *)
(* `wal` that Restart folds over.  This module is the layer below: the log *)
(* is a head file that the group's size check moves away (wal.000,         *)
(* wal.001, ...) at arbitrary moments, records reach the file through a    *)
(* buffer, `#HEIGHT: h' marker lines separate the heights, and a restarted *)
(* process finds its height by a binary search over the files.  The        *)
(* property (part of C07) is that this layer implements the abstract       *)
(* sequence: what catchupReplay reads after any history of writes,         *)
(* rotations, crashes and restarts is exactly the sequence of input        *)
(* records of the current height that reached the disk (ghost `log').      *)
(*                                                                         *)
(* FixSearch / FixEmptyHead = FALSE give the code before the repairs       *)
(* (sensitivity configurations, expected to violate ReplayReadsLog).       *)
(***************************************************************************)
EXTENDS Integers, Sequences, TLC

CONSTANTS MaxFiles,      \* bound on the number of files (head included)
          MaxHeight,     \* heights 1..MaxHeight
          MaxRecs,       \* bound on the number of input records written in total
          MaxCrashes,
          FixSearch,     \* Search treats "no marker from the middle file to the end" as "look in the lower half"
          FixEmptyHead   \* WAL.OnStart writes "#HEIGHT: 1" only into a group that is empty altogether

VARIABLES files,    \* on-disk files in index order, each a sequence of lines; the last one is the head
          torn,     \* the last line of the head has no line end (the process died while writing it)
          buf,      \* lines accepted by Group.WriteLine that Flush has not handed to the file yet
          up,       \* a process is running
          gmax,     \* the running group's maxIndex (index of the head)
          pc,       \* where the writer (consensus goroutine inside WAL.Save) stands
          H,        \* height the consensus state is in (it comes from the durable State, not from the log)
          nrec,     \* records written so far (next record id = nrec + 1)
          log,      \* ghost: ids of the input records of height H that are whole on disk, in order
          fresh,    \* the head's last line is a record flushed by the running process
          crashes,
          chk       \* ghost: what the last start replayed vs. what it had to replay

vars == <<files, torn, buf, up, gmax, pc, H, nrec, log, fresh, crashes, chk>>

M(h)  == [k |-> "M", v |-> h]      \* marker line "#HEIGHT: h"
R(id) == [k |-> "R", v |-> id]     \* a whole input record (msgInfo / timeoutInfo)
T(id) == [k |-> "T", v |-> id]     \* what is left of a record the crash tore: an undecodable line

HeadF     == files[Len(files)]
SetHead(f) == [files EXCEPT ![Len(files)] = f]

-----------------------------------------------------------------------------
(* GroupReader: lines of file i, i+1, ... up to the head, as <<file index (0-based), line>> *)
RECURSIVE Flat(_, _)
Flat(fs, i) == IF i > Len(fs) THEN <<>>
               ELSE [j \in 1..Len(fs[i]) |-> <<i - 1, fs[i][j]>>] \o Flat(fs, i + 1)

IsMarker(e) == e[2].k = "M"

\* scanNext: first marker at or after file index ci (0-based): <<file index, height>> or <<-1,-1>> (io.EOF)
ScanNext(fs, ci) ==
  LET fl == Flat(fs, ci + 1)
      ks == {j \in 1..Len(fl) : IsMarker(fl[j])}
  IN IF ks = {} THEN <<-1, -1>>
     ELSE LET j == CHOOSE x \in ks : \A y \in ks : x <= y IN <<fl[j][1], fl[j][2].v>>

\* scanUntil from the start of file index fi: the first marker >= t.
\* Result: [st |-> "found" | "greater" | "eof", rest |-> lines from that marker on]
ScanUntil(fs, fi, t) ==
  LET fl == Flat(fs, fi + 1)
      ks == {j \in 1..Len(fl) : IsMarker(fl[j]) /\ fl[j][2].v >= t}
  IN IF ks = {} THEN [st |-> "eof", rest |-> <<>>]
     ELSE LET j == CHOOSE x \in ks : \A y \in ks : x <= y
          IN [st |-> IF fl[j][2].v = t THEN "found" ELSE "greater",
              rest |-> [x \in 1..(Len(fl) - j + 1) |-> fl[j + x - 1][2]]]

\* Group.Search, the loop transcribed (mn, mx are 0-based file indices)
RECURSIVE Search(_, _, _, _)
Search(fs, mn, mx, t) ==
  IF mn = mx THEN ScanUntil(fs, mx, t)
  ELSE LET cur == (mn + mx + 1) \div 2
           nx  == ScanNext(fs, cur)
       IN IF nx[1] = -1
            THEN IF FixSearch THEN Search(fs, mn, cur - 1, t)
                 ELSE [st |-> "eof", rest |-> <<>>]          \* err == io.EOF handed to the caller
          ELSE IF nx[2] < t THEN Search(fs, nx[1], mx, t)
          ELSE IF nx[2] = t THEN ScanUntil(fs, nx[1], t)
          ELSE Search(fs, mn, cur - 1, t)

RECURSIVE Inputs(_)
Inputs(ls) == IF ls = <<>> THEN <<>>
              ELSE (IF Head(ls).k = "R" THEN <<Head(ls).v>> ELSE <<>>) \o Inputs(Tail(ls))
   \* markers start with '#', torn records do not decode: both are skipped (replay.go)

\* catchupReplay(h) on the files fs of a freshly opened group: the input records it hands to the handlers
CatchupReplay(fs, h) ==
  LET mx == Len(fs) - 1
      a  == Search(fs, 0, mx, h + 1)
      b  == Search(fs, 0, mx, h)
  IN IF a.st = "found" THEN [err |-> "has-next-height", ids |-> <<>>]
     ELSE IF b.st = "eof" THEN [err |-> "eof", ids |-> <<>>]          \* "Search returned EOF": nothing replayed
     ELSE IF b.st = "greater" THEN [err |-> "no-height", ids |-> <<>>]
     ELSE [err |-> "", ids |-> Inputs(b.rest)]

-----------------------------------------------------------------------------
Init == /\ files = << <<M(1)>> >>       \* NewWAL on an empty directory writes "#HEIGHT: 1"
        /\ torn = FALSE /\ buf = <<>> /\ up = TRUE /\ gmax = 0 /\ pc = "idle"
        /\ H = 1 /\ nrec = 0 /\ log = <<>> /\ fresh = FALSE /\ crashes = 0
        /\ chk = [got |-> <<>>, want |-> <<>>, err |-> ""]

\* WAL.Save(input): Group.WriteLine
WriteRec == /\ up /\ pc = "idle" /\ nrec < MaxRecs
            /\ buf' = Append(buf, R(nrec + 1)) /\ nrec' = nrec + 1 /\ pc' = "flushRec"
            /\ UNCHANGED <<files, torn, up, gmax, H, log, fresh, crashes, chk>>

\* WAL.Save(input): Group.Flush - the buffered lines reach the head file
FlushRec == /\ up /\ pc = "flushRec"
            /\ files' = SetHead(HeadF \o buf) /\ buf' = <<>> /\ pc' = "idle"
            /\ log' = Append(log, nrec) /\ fresh' = TRUE
            /\ UNCHANGED <<torn, up, gmax, H, nrec, crashes, chk>>

\* finalizeCommit: the block is stored and the State saved; the consensus state moves to the next height
Commit == /\ up /\ pc = "idle" /\ H < MaxHeight
          /\ H' = H + 1 /\ log' = <<>> /\ pc' = "writeMarker"
          /\ UNCHANGED <<files, torn, buf, up, gmax, nrec, fresh, crashes, chk>>

\* WAL.Save(NewHeight round state): writeHeight = WriteLine("#HEIGHT: h") ...
WriteMarker == /\ up /\ pc = "writeMarker"
               /\ buf' = Append(buf, M(H)) /\ pc' = "flushMarker"
               /\ UNCHANGED <<files, torn, up, gmax, H, nrec, log, fresh, crashes, chk>>

\* ... + Flush
FlushMarker == /\ up /\ pc = "flushMarker"
               /\ files' = SetHead(HeadF \o buf) /\ buf' = <<>> /\ pc' = "idle" /\ fresh' = FALSE
               /\ UNCHANGED <<torn, up, gmax, H, nrec, log, crashes, chk>>

\* processTicks -> checkHeadSizeLimit -> RotateFile: the head becomes wal.<gmax>, a new empty head starts.
\* Runs on the group's own goroutine, i.e. between any two steps of the writer (the buffer is not flushed).
Rotate == /\ up /\ Len(files) < MaxFiles /\ HeadF # <<>>
          /\ files' = Append(files, <<>>) /\ gmax' = gmax + 1 /\ fresh' = FALSE
          /\ UNCHANGED <<torn, buf, up, pc, H, nrec, log, crashes, chk>>

\* the process dies: buffered lines are lost
Crash == /\ up /\ crashes < MaxCrashes
         /\ up' = FALSE /\ buf' = <<>> /\ pc' = "idle" /\ crashes' = crashes + 1 /\ fresh' = FALSE
         /\ UNCHANGED <<files, torn, gmax, H, nrec, log, chk>>

\* the process dies while the record it wrote last was only partly on disk
CrashTorn == /\ up /\ crashes < MaxCrashes /\ fresh /\ HeadF # <<>> /\ HeadF[Len(HeadF)].k = "R"
             /\ log # <<>> /\ HeadF[Len(HeadF)].v = log[Len(log)]
             /\ files' = SetHead([HeadF EXCEPT ![Len(HeadF)] = T(HeadF[Len(HeadF)].v)])
             /\ torn' = TRUE /\ log' = SubSeq(log, 1, Len(log) - 1)
             /\ up' = FALSE /\ buf' = <<>> /\ pc' = "idle" /\ crashes' = crashes + 1 /\ fresh' = FALSE
             /\ UNCHANGED <<gmax, H, nrec, chk>>

\* A new process on the same directory: OpenGroup (indices from the directory listing), WAL.OnStart,
\* ConsensusState.OnStart (marker of the current height written if the search does not find it), catchupReplay.
Start ==
  /\ ~up
  /\ LET mx  == Len(files) - 1
         \* WAL.OnStart
         f1  == IF HeadF = <<>> /\ (FixEmptyHead => Len(files) = 1) THEN SetHead(<<M(1)>>) ELSE files
         \* ConsensusState.OnStart: Search for the height; not found (or io.EOF) in step NewHeight => Save(round state)
         s   == Search(f1, 0, mx, H)
         f2  == IF s.st # "found" THEN [f1 EXCEPT ![Len(f1)] = f1[Len(f1)] \o <<M(H)>>] ELSE f1
         rp  == CatchupReplay(f2, H)
     IN /\ files' = f2
        /\ chk' = [got |-> rp.ids, want |-> log, err |-> rp.err]
        /\ gmax' = mx
  /\ torn' = FALSE        \* OnStart terminates a torn last line; it stays one undecodable line
  /\ up' = TRUE /\ pc' = "idle" /\ buf' = <<>> /\ fresh' = FALSE
  /\ UNCHANGED <<H, nrec, log, crashes>>

Next == WriteRec \/ FlushRec \/ Commit \/ WriteMarker \/ FlushMarker \/ Rotate \/ Crash \/ CrashTorn \/ Start

Spec == Init /\ [][Next]_vars

-----------------------------------------------------------------------------
TypeOK == /\ Len(files) \in 1..MaxFiles /\ gmax \in 0..(MaxFiles - 1)
          /\ up => gmax = Len(files) - 1
          /\ H \in 1..MaxHeight /\ nrec \in 0..MaxRecs
          /\ pc \in {"idle", "flushRec", "writeMarker", "flushMarker"}

\* C07 at this layer: a start replays exactly the input records of the current height that are whole on disk
ReplayReadsLog == chk.got = chk.want

\* the start never takes one of catchupReplay's error exits (they all mean: nothing is replayed)
ReplayNoError == chk.err = ""

\* markers appear in non-decreasing order over the whole group (what the binary search relies on)
MarkersOrdered ==
  LET fl == Flat(files, 1)
  IN \A i, j \in 1..Len(fl) : (i < j /\ IsMarker(fl[i]) /\ IsMarker(fl[j])) => fl[i][2].v <= fl[j][2].v

\* while the process runs, searching for its height finds the marker (OnStart's own search, and any later one)
CurrentHeightFound ==
  (up /\ pc \in {"idle", "flushRec"}) => Search(files, 0, Len(files) - 1, H).st = "found"

=============================================================================
