SPECIFICATION Spec
CONSTANTS
  CapP = 2
  CapI = 1
  CapT = 1
  CapK = 1
  MaxPeer = 3
  MaxGen = 4
  HookListener = TRUE
INVARIANTS TypeOK NothingLost
PROPERTIES EventuallyQuiescent
CHECK_DEADLOCK TRUE
