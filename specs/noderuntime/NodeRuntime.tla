------------------------------ MODULE NodeRuntime ------------------------------
(* Intra-process concurrency of one consensus node (state.go receiveRoutine / sendInternalMessage /           *)
(* scheduleTimeout, ticker.go timeoutRoutine, the synchronous event hooks with reply channels): goroutines and *)
(* bounded channels only, no consensus content.  C12: "a node never deadlocks on its own queues, locks or      *)
(* hooks".                                                                                                     *)
(*   peerQ  (cap CapP)  reactor Receive -> receiveRoutine        (senders block when full)                     *)
(*   intQ   (cap CapI)  own messages; sendInternalMessage is non-blocking: when full it SPAWNS a goroutine     *)
(*                      that blocks on the send (so own messages may be reordered, never lost)                 *)
(*   tickCh (cap CapT)  scheduleTimeout -> timeoutRoutine         (receiveRoutine blocks when full)            *)
(*   tockCh (cap CapK)  fired timeouts, each sent by its own goroutine (timeoutRoutine never blocks)           *)
(*   resCh  (cap 1)     reply channel of a hook event; the listener runs synchronously inside FireEvent        *)
EXTENDS Integers, Sequences

CONSTANTS CapP, CapI, CapT, CapK,
          MaxPeer,        \* messages the reactor will deliver
          MaxGen,         \* own messages + timeouts the handlers may generate in total
          HookListener    \* TRUE: a listener answers hook events (angine installs one); FALSE: nobody does

VARIABLES peerQ, intQ, tickCh, tockCh,
          sent,           \* messages produced by the reactor so far
          gen,            \* own messages / ticks generated so far
          ovf,            \* goroutines blocked on intQ <- m
          tockers,        \* goroutines blocked on tockCh <- ti
          timerSet,       \* the ticker's timer is running
          rstate,         \* receiveRoutine: "select" | "handling" | "sendTick" | "waitHook"
          todo,           \* what the current handler still wants to do: sequence of "int" | "tick" | "hook"
          handled         \* inputs handled so far
vars == <<peerQ, intQ, tickCh, tockCh, sent, gen, ovf, tockers, timerSet, rstate, todo, handled>>

Init == /\ peerQ = <<>> /\ intQ = <<>> /\ tickCh = <<>> /\ tockCh = <<>>
        /\ sent = 0 /\ gen = 0 /\ ovf = 0 /\ tockers = 0 /\ timerSet = FALSE
        /\ rstate = "select" /\ todo = <<>> /\ handled = 0

\* the reactor (peer goroutines): blocks while peerQ is full
Reactor == /\ sent < MaxPeer /\ Len(peerQ) < CapP
           /\ peerQ' = Append(peerQ, "m") /\ sent' = sent + 1
           /\ UNCHANGED <<intQ, tickCh, tockCh, gen, ovf, tockers, timerSet, rstate, todo, handled>>

\* what a handler may do: any sequence of at most 3 effects within the global budget
Plans == {<<>>, <<"int">>, <<"tick">>, <<"hook">>, <<"int", "int">>, <<"hook", "tick">>, <<"int", "tick">>,
          <<"hook", "int", "tick">>, <<"int", "int", "tick">>}

\* select { peerMsgQueue | internalMsgQueue | tockChan }
Select(ch) ==
  /\ rstate = "select"
  /\ \E p \in Plans :
       /\ gen + Len(p) <= MaxGen
       /\ todo' = p /\ gen' = gen + Len(SelectSeq(p, LAMBDA x : x # "hook"))
  /\ \/ ch = "peer" /\ peerQ # <<>> /\ peerQ' = Tail(peerQ) /\ UNCHANGED <<intQ, tockCh>>
     \/ ch = "int"  /\ intQ # <<>>  /\ intQ' = Tail(intQ)   /\ UNCHANGED <<peerQ, tockCh>>
     \/ ch = "tock" /\ tockCh # <<>> /\ tockCh' = Tail(tockCh) /\ UNCHANGED <<peerQ, intQ>>
  /\ rstate' = "handling" /\ handled' = handled + 1
  /\ UNCHANGED <<tickCh, sent, ovf, tockers, timerSet>>

\* the handler performs its next effect (cs.mtx is held throughout; nobody else needs it to make progress here)
Handle ==
  /\ rstate = "handling"
  /\ IF todo = <<>> THEN rstate' = "select" /\ UNCHANGED <<intQ, tickCh, ovf, todo>>
     ELSE LET e == Head(todo) IN
       \/ /\ e = "int"                               \* sendInternalMessage: select { case q <- m: default: go func(){ q <- m }() }
          /\ IF Len(intQ) < CapI THEN intQ' = Append(intQ, "own") /\ ovf' = ovf
                                  ELSE ovf' = ovf + 1 /\ intQ' = intQ
          /\ todo' = Tail(todo) /\ rstate' = "handling" /\ UNCHANGED tickCh
       \/ /\ e = "tick"                              \* scheduleTimeout: tickChan <- ti (blocking)
          /\ Len(tickCh) < CapT
          /\ tickCh' = Append(tickCh, "ti") /\ todo' = Tail(todo) /\ rstate' = "handling" /\ UNCHANGED <<intQ, ovf>>
       \/ /\ e = "hook"                              \* FireEvent runs the listener synchronously; it puts the reply on resCh
          /\ HookListener                            \* without a listener <-ed.ResCh blocks forever
          /\ todo' = Tail(todo) /\ rstate' = "handling" /\ UNCHANGED <<intQ, tickCh, ovf>>
  /\ UNCHANGED <<peerQ, tockCh, sent, gen, tockers, timerSet, handled>>

\* overflow goroutine completes its send
Overflow == /\ ovf > 0 /\ Len(intQ) < CapI
            /\ intQ' = Append(intQ, "own") /\ ovf' = ovf - 1
            /\ UNCHANGED <<peerQ, tickCh, tockCh, sent, gen, tockers, timerSet, rstate, todo, handled>>

\* timeoutRoutine: a new tick resets the timer; an expired timer spawns a goroutine for the tock
TickerRecv == /\ tickCh # <<>> /\ tickCh' = Tail(tickCh) /\ timerSet' = TRUE
              /\ UNCHANGED <<peerQ, intQ, tockCh, sent, gen, ovf, tockers, rstate, todo, handled>>
TickerFire == /\ timerSet /\ timerSet' = FALSE /\ tockers' = tockers + 1
              /\ UNCHANGED <<peerQ, intQ, tickCh, tockCh, sent, gen, ovf, rstate, todo, handled>>
Tocker == /\ tockers > 0 /\ Len(tockCh) < CapK
          /\ tockCh' = Append(tockCh, "ti") /\ tockers' = tockers - 1
          /\ UNCHANGED <<peerQ, intQ, tickCh, sent, gen, ovf, timerSet, rstate, todo, handled>>

Quiescent == /\ sent = MaxPeer /\ peerQ = <<>> /\ intQ = <<>> /\ tickCh = <<>> /\ tockCh = <<>>
             /\ ovf = 0 /\ tockers = 0 /\ ~timerSet /\ rstate = "select"
Done == Quiescent /\ UNCHANGED vars

Next == Reactor \/ (\E ch \in {"peer", "int", "tock"} : Select(ch)) \/ Handle \/ Overflow
        \/ TickerRecv \/ TickerFire \/ Tocker \/ Done

Fairness == WF_vars(Reactor) /\ WF_vars(\E ch \in {"peer", "int", "tock"} : Select(ch)) /\ WF_vars(Handle)
            /\ WF_vars(Overflow) /\ WF_vars(TickerRecv) /\ WF_vars(TickerFire) /\ WF_vars(Tocker)
Spec == Init /\ [][Next]_vars /\ Fairness

TypeOK == /\ Len(peerQ) <= CapP /\ Len(intQ) <= CapI /\ Len(tickCh) <= CapT /\ Len(tockCh) <= CapK
\* no deadlock: checked by TLC's deadlock detection (Done is the only terminal stutter)
\* every input is eventually handled and the node comes to rest
EventuallyQuiescent == <>[]Quiescent
\* nothing is lost: at rest, the node handled every peer message, every own message and every tock
NothingLost == Quiescent => handled >= MaxPeer
================================================================================
