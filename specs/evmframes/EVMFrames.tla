-------------------------------- MODULE EVMFrames --------------------------------
(* eth/core/vm/{evm,interpreter,instructions}.go - the machine of CALL FRAMES (C10, partial).          *)
(*                                                                                                      *)
(* One transaction: sender S calls contract A.  Contracts are straight-line programs over ABSTRACT     *)
(* ops; the program text is chosen LAZILY - when a frame reaches a position of a contract that has no  *)
(* op yet, the next op is picked from `Alphabet` (or the code is declared finished) and stays fixed -  *)
(* so every behaviour is "one program + its execution", and TLC's exploration enumerates programs.     *)
(* Words are abstract values (strings): "0".."4", "@x" = address of account x, "ch@x" = code hash of x, *)
(* "sha(v)" "rip(v)" =                                                                                  *)
(* precompile images.  No 256-bit arithmetic, no gas numbers: what is modelled is what AnnChain edited *)
(* around - frames, snapshots/revert, static mode, depth limit, return data, value transfer, creation, *)
(* self-destruct, precompile dispatch, and the execution budget.                                       *)
(*                                                                                                      *)
(* Mode selects whose semantics the spec states:                                                        *)
(*   "REF"  reference go-ethereum v1.8.27, Constantinople rules, ample gas                              *)
(*   "ANN"  the in-tree VM as implemented, chain config with every fork active                          *)
(*   "APP"  the in-tree VM as implemented, configured as chain/app/evm does (MainnetChainConfig, block   *)
(*          number = chain height, i.e. below every fork block)                                         *)
(* Every place where ANN/APP departs from REF adds a tag to `dev`:                                      *)
(*   documented deviations:  "budget" (per-transaction budget, BURN), "pfe" (precompile at 0xfe)        *)
(*   undocumented (findings): "deposit", "nonce0", "frontier-create" - see the comments                 *)
(*   (a fourth one, "static" - write protection of STATICCALL switched off below the Byzantium block -   *)
(*   was found with this spec and repaired in /repo; static mode is now enforced in every mode)          *)
(* A behaviour with dev = {} is common to all three modes.                                              *)
EXTENDS Integers, Sequences, FiniteSets, TLC

CONSTANTS
  Contracts,   \* names of the pre-deployed contracts, "A" is the entry point
  Alphabet,    \* set of op records [op, t, k, v, val] programs are built from
  MaxOps,      \* ops per contract
  MaxDepth,    \* number of nested frames allowed; frame number MaxDepth cannot call/create.
               \* (1025 in the code: evm.depth > params.CallCreateDepth; the driver starts the program
               \* below a chain of 1025-MaxDepth trampoline frames so that the real limit is the one hit)
  Entry,       \* "direct": S's transaction calls A (top frame owns the transaction's gas; the depth limit is out of
               \*           reach of bounded programs: a behaviour that would need it is cut, class "cut", never exported)
               \* "tramp":  A is called from the last of a chain of trampoline frames, so frame MaxDepth is the real limit
  Mode

ASSUME Entry \in {"direct", "tramp"}
ASSUME Mode \in {"REF", "ANN", "APP"}

\* ---- the three semantics, as switches
StaticEnforced   == TRUE           \* interpreter.enforceRestrictions (was gated by chainRules.IsByzantium: FALSE in APP)
NewNonce         == IF Mode = "APP" THEN 0 ELSE 1   \* evm.create: SetNonce(addr,1) gated by IsEIP158
Homestead        == Mode # "APP"   \* evm.create / opCreate: code-store failure reverts only from Homestead on
DepositByFrameGas == Mode # "REF"  \* evm.create charges the code deposit to contract.Gas; the in-tree CALLs never
                                   \* forward gas (callGasTemp stays 0), so only frames on a CREATE-chain from the
                                   \* top frame can pay it
HasPFE           == Mode # "REF"   \* governance precompile at 0xfe (refuses every caller but the Admin contract)
HasBudget        == Mode # "REF"

Slots  == {"0", "1"}
Precompiles == {"P1", "P2", "P3", "P4", "P5", "P6", "P7", "P8"}
Small(x) == x \in {"0", "1", "2", "3", "4"}

RDEmpty == [sz |-> 0, a |-> "0", o |-> "0"]
RD32(x) == [sz |-> 32, a |-> x, o |-> "0"]
RD64(x, y) == [sz |-> 64, a |-> x, o |-> y]

ZeroStor == [s \in Slots |-> "0"]
NoAcct == [ex |-> FALSE, nonce |-> 0, bal |-> 0, code |-> "none", ca |-> "0", co |-> "0", stor |-> ZeroStor, dead |-> FALSE]

VARIABLES
  code,    \* [Contracts -> Seq(op)]   program text revealed so far
  done,    \* [Contracts -> BOOLEAN]   text of the contract is complete
  frames,  \* Seq(frame)               call stack, top = last
  st,      \* [address ids -> account] world state (journalled through the frames' snapshots)
  logs,    \* Seq([a, d])
  result,  \* [class, rd], class = "running" until the transaction ends
  dev,     \* deviation tags that fired
  marks    \* coverage marks (which interesting branches the behaviour took); no semantic role

vars == <<code, done, frames, st, logs, result, dev, marks>>

Get(s, a) == IF a \in DOMAIN s THEN s[a] ELSE NoAcct
Put(s, a, r) == [x \in (DOMAIN s) \cup {a} |-> IF x = a THEN r ELSE s[x]]
IsEmptyAcct(r) == r.nonce = 0 /\ r.bal = 0 /\ r.code = "none"

Transfer(s, from, to, v) ==
  IF v = 0 THEN s
  ELSE LET s1 == Put(s, from, [Get(s, from) EXCEPT !.bal = @ - v])
       IN Put(s1, to, [Get(s1, to) EXCEPT !.ex = TRUE, !.bal = @ + v])

InitSt ==
  [x \in Contracts \cup {"S"} |->
     IF x = "S" THEN [NoAcct EXCEPT !.ex = TRUE, !.nonce = 1, !.bal = 9]
     ELSE [NoAcct EXCEPT !.ex = TRUE, !.nonce = 1, !.bal = 2, !.code = x]]

Frame(self, codeOf, static, caller, value, input, kind, snapSt, snapLogs, fg) ==
  [self |-> self, codeOf |-> codeOf, pc |-> 1, acc |-> "0", ok |-> "0", rd |-> RDEmpty, static |-> static,
   caller |-> caller, value |-> value, input |-> input, kind |-> kind, snapSt |-> snapSt, snapLogs |-> snapLogs, fg |-> fg,
   \* output window of the CALL family: memory words 2 and 3 of the frame, pre-filled with the markers "3" / "4" by
   \* the prologue every contract starts with; win = size (0/32/64) of the window of the call in progress
   w1 |-> "3", w2 |-> "4", win |-> 0]

Init ==
  /\ code = [c \in Contracts |-> <<>>]
  /\ done = [c \in Contracts |-> FALSE]
  /\ st = InitSt
  /\ frames = <<Frame("A", "A", FALSE, "T", 0, "2", "call", InitSt, <<>>, IF Entry = "direct" THEN "full" ELSE "low")>>
  /\ marks = {}
  /\ logs = <<>>
  /\ result = [class |-> "running", rd |-> RDEmpty]
  /\ dev = {}

-----------------------------------------------------------------------------------
(* The machine state as one record M = [fr, st, logs, res, dev, mk]; every op is a function M -> M. *)
Mark(M, m) == [M EXCEPT !.mk = @ \cup {m}]
Cut(M) == [M EXCEPT !.fr = <<>>, !.res = [class |-> "cut", rd |-> RDEmpty]]

Top(M) == M.fr[Len(M.fr)]
SetTop(M, f) == [M EXCEPT !.fr[Len(M.fr)] = f]
Next1(M) == SetTop(M, [Top(M) EXCEPT !.pc = @ + 1])
(* memory.Set(retOffset, retSize, ret): the callee's return OR revert data is copied into the caller's output window,
   as much of it as there is and as the window holds; a failed call (no data) leaves the window untouched *)
Win(o) == IF o.k = "32" THEN 32 ELSE IF o.k = "64" THEN 64 ELSE 0
CopyWin(f, rd, win) == [f EXCEPT !.w1 = IF win >= 32 /\ rd.sz >= 32 THEN rd.a ELSE @,
                                 !.w2 = IF win = 64 /\ rd.sz = 64 THEN rd.o ELSE @]

Push0(M) == SetTop(M, [Top(M) EXCEPT !.pc = @ + 1, !.ok = "0", !.rd = RDEmpty])   \* a CALL/CREATE that does not start

SetCode(s, a, data) ==
  IF data.sz = 0 THEN s    \* SetCode(addr, empty)
  ELSE Put(s, a, [Get(s, a) EXCEPT !.code = "data", !.ca = data.a, !.co = data.o])

(* The top frame ends: outcome "ok" (STOP / RETURN / SELFDESTRUCT), "revert" (REVERT) or "fail"
   (exceptional halt).  Revert and fail restore the frame's snapshot.  A creation frame that ends "ok"
   deposits its return data as code. *)
Finish(M, outcome, data) ==
  LET f == Top(M)
      n == Len(M.fr)
      isCreate == f.kind \in {"create", "create2"}
      depositFails == isCreate /\ outcome = "ok" /\ data.sz # 0 /\ DepositByFrameGas /\ f.fg = "low"
      eff  == IF depositFails /\ Homestead THEN "fail" ELSE outcome
      st1  == IF eff = "ok"
                THEN (IF isCreate /\ ~depositFails THEN SetCode(M.st, f.self, data) ELSE M.st)
                ELSE f.snapSt
      lg1  == IF eff = "ok" THEN M.logs ELSE f.snapLogs
      dev1 == M.dev \cup (IF depositFails THEN {"deposit"} \cup (IF Homestead THEN {} ELSE {"frontier-create"}) ELSE {})
      \* Frontier rule (APP): the failed deposit is not reverted; opCreate then pushes the address, opCreate2
      \* (which has no Homestead case) pushes 0 for any error although the state was kept
      okw  == IF eff = "ok" /\ ~(depositFails /\ f.kind = "create2") THEN "1" ELSE "0"
      rd1  == IF isCreate THEN (IF eff = "revert" THEN data ELSE RDEmpty)
                          ELSE (IF eff = "fail" THEN RDEmpty ELSE data)
  IN IF n = 1
       THEN [fr |-> <<>>, st |-> st1, logs |-> lg1, dev |-> dev1, mk |-> M.mk \cup {"end-" \o eff},
             res |-> [class |-> (IF eff = "ok" THEN "success" ELSE IF eff = "revert" THEN "revert" ELSE "failure"),
                      rd |-> (IF eff = "fail" THEN RDEmpty ELSE data)]]
       ELSE LET p == M.fr[n - 1]
                p1 == [p EXCEPT !.ok = okw, !.rd = rd1, !.pc = @ + 1]
                p2 == IF isCreate THEN p1 ELSE CopyWin(p1, rd1, p.win)
            IN [fr |-> Append(SubSeq(M.fr, 1, n - 2), p2), st |-> st1, logs |-> lg1, dev |-> dev1, res |-> M.res,
                mk |-> M.mk \cup {"sub-" \o (IF isCreate THEN "create" ELSE "call") \o "-" \o eff}
                            \cup (IF isCreate /\ eff = "ok" /\ data.sz # 0 /\ ~depositFails THEN {"code-deposited"} ELSE {})]

(* precompiled contracts on the 32-byte input word x: [ok, rd] *)
PreRes(p, x) ==
  CASE p = "P1" -> [ok |-> TRUE, rd |-> RDEmpty]                               \* ecrecover: no valid signature
    [] p = "P2" -> [ok |-> TRUE, rd |-> RD32("sha(" \o x \o ")")]
    [] p = "P3" -> [ok |-> TRUE, rd |-> RD32("rip(" \o x \o ")")]
    [] p = "P4" -> [ok |-> TRUE, rd |-> RD32(x)]                               \* identity
    [] p = "P5" -> [ok |-> Small(x), rd |-> RDEmpty]                           \* modexp: x is the base LENGTH
    [] p = "P6" -> [ok |-> x = "0", rd |-> IF x = "0" THEN RD64("0", "0") ELSE RDEmpty]   \* bn256 add: (x,0) on the curve?
    [] p = "P7" -> [ok |-> x = "0", rd |-> IF x = "0" THEN RD64("0", "0") ELSE RDEmpty]   \* bn256 mul
    [] p = "P8" -> [ok |-> FALSE, rd |-> RDEmpty]                              \* pairing: length not k*192

IsWrite(o) == o.op \in {"SSTORE", "LOG", "CREATE", "CREATE2", "SELFDESTRUCT"} \/ (o.op = "EXTCODEHASH" /\ o.k \in Slots)

(* CALL / CALLCODE / DELEGATECALL / STATICCALL *)
DoCall(M, o) ==
  LET f    == Top(M)
      t    == o.t
      val  == IF o.op \in {"CALL", "CALLCODE"} THEN o.val ELSE 0
      sviol == f.static /\ o.op = "CALL" /\ val > 0
      M1   == [M EXCEPT !.dev = IF sviol THEN @ \cup {"static"} ELSE @]
      self2 == IF o.op \in {"CALL", "STATICCALL"} THEN t ELSE f.self
      cal2  == IF o.op = "DELEGATECALL" THEN f.caller ELSE f.self
      val2  == IF o.op = "DELEGATECALL" THEN f.value ELSE val
      stat2 == f.static \/ o.op = "STATICCALL"
      moved == IF o.op = "CALL" THEN Transfer(M.st, f.self, t, val) ELSE M.st
      cd    == Get(M.st, t).code
      pfe   == t = "PFE" /\ HasPFE
  IN IF sviol /\ StaticEnforced THEN Finish(Mark(M, "static-blocked"), "fail", RDEmpty)
     ELSE IF Len(M.fr) >= MaxDepth THEN (IF Entry = "tramp" THEN Push0(Mark(M1, "depth-limit")) ELSE Cut(M))
     ELSE IF val > Get(M.st, f.self).bal THEN Push0(Mark(M1, "insufficient-balance"))
     ELSE IF pfe THEN Push0([M1 EXCEPT !.dev = @ \cup {"pfe"}])        \* refuses the caller: the call fails
     ELSE IF t \in Precompiles THEN
            LET r == PreRes(t, f.acc) IN
            IF r.ok THEN SetTop([M1 EXCEPT !.st = moved], CopyWin([f EXCEPT !.pc = @ + 1, !.ok = "1", !.rd = r.rd], r.rd, Win(o)))
                    ELSE Push0(M1)
     ELSE IF cd \in Contracts THEN
            [M1 EXCEPT !.st = moved,
                       !.fr = Append(SubSeq(M.fr, 1, Len(M.fr) - 1) \o <<[f EXCEPT !.win = Win(o)]>>,
                                     Frame(self2, cd, stat2, cal2, val2, f.acc, "call", M.st, M.logs, "low"))]
     ELSE \* no code there: the call succeeds at once with empty return data
          SetTop([M1 EXCEPT !.st = moved], [f EXCEPT !.pc = @ + 1, !.ok = "1", !.rd = RDEmpty])

(* CREATE / CREATE2 with the code of contract o.t as init code *)
DoCreate(M, o) ==
  LET f    == Top(M)
      me   == Get(M.st, f.self)
      new  == IF o.op = "CREATE" THEN f.self \o "/" \o ToString(me.nonce) ELSE f.self \o "#" \o o.t
      st1  == Put(M.st, f.self, [me EXCEPT !.nonce = @ + 1])
      tgt  == Get(st1, new)
      st2  == Put(st1, new, [NoAcct EXCEPT !.ex = TRUE, !.nonce = NewNonce, !.bal = tgt.bal])
      st3  == Transfer(st2, f.self, new, o.val)
      M1   == [M EXCEPT !.dev = (IF f.static THEN @ \cup {"static"} ELSE @)]
  IN IF f.static /\ StaticEnforced THEN Finish(Mark(M, "static-blocked"), "fail", RDEmpty)
     ELSE IF Len(M.fr) >= MaxDepth THEN (IF Entry = "tramp" THEN Push0(Mark(M1, "depth-limit")) ELSE Cut(M))
     ELSE IF o.val > me.bal THEN Push0(Mark(M1, "insufficient-balance"))
     ELSE IF tgt.nonce # 0 \/ tgt.code # "none" THEN Push0(Mark([M1 EXCEPT !.st = st1], "collision"))     \* address collision
     ELSE [M1 EXCEPT !.st = st3,
                     !.dev = (IF NewNonce = 0 THEN @ \cup {"nonce0"} ELSE @),
                     !.fr = Append(M.fr, Frame(new, o.t, f.static, f.self, o.val, "0",
                                               IF o.op = "CREATE" THEN "create" ELSE "create2", st1, M.logs, f.fg))]

Apply(M, o) ==
  LET f == Top(M)
      blocked == f.static /\ IsWrite(o) /\ StaticEnforced
      Ms == IF f.static /\ IsWrite(o) THEN [M EXCEPT !.dev = @ \cup {"static"}] ELSE M
  IN
  IF blocked THEN Finish(Mark(M, "static-blocked"), "fail", RDEmpty)
  ELSE CASE o.op = "SSTORE" ->
              LET v == IF o.v = "acc" THEN f.acc ELSE IF o.v = "w1" THEN f.w1 ELSE IF o.v = "w2" THEN f.w2 ELSE o.v
                  a == Get(M.st, f.self)
              IN Next1([Ms EXCEPT !.st = Put(M.st, f.self, [a EXCEPT !.stor[o.k] = v])])
         [] o.op = "SLOAD"     -> SetTop(M, [f EXCEPT !.pc = @ + 1, !.acc = Get(M.st, f.self).stor[o.k]])
         [] o.op = "LOG"       -> Next1([Ms EXCEPT !.logs = Append(@, [a |-> f.self, d |-> f.acc])])
         [] o.op = "SETACC"    -> SetTop(M, [f EXCEPT !.pc = @ + 1, !.acc = o.v])
         [] o.op = "CALLER"    -> SetTop(M, [f EXCEPT !.pc = @ + 1, !.acc = "@" \o f.caller])
         [] o.op = "ADDRESS"   -> SetTop(M, [f EXCEPT !.pc = @ + 1, !.acc = "@" \o f.self])
         [] o.op = "CALLVALUE" -> SetTop(M, [f EXCEPT !.pc = @ + 1, !.acc = ToString(f.value)])
         [] o.op = "CDLOAD"    -> SetTop(M, [f EXCEPT !.pc = @ + 1, !.acc = f.input])
         [] o.op = "HOP"       -> Next1(M)   \* a JUMP over a block of 0x5b bytes inside a PUSH32 immediate: no effect, as long as the
                                              \* jump-destination analysis of THIS frame's code is the one consulted (the assembler
                                              \* shifts every contract's layout so that targets of one are immediates of another)
         [] o.op = "EXTCODEHASH" ->
              \* EIP-1052: 0 for an EMPTY account (nonce 0, balance 0, no code) whether or not a state object exists
              \* (a zero-value call to a precompile or, before EIP-158, to a fresh address leaves such an object),
              \* else the hash of its code, "ch@t" (keccak256 of nothing for a funded account without code).
              \* With a slot in k the word is also stored there (exposes it to two-op programs).
              LET h  == IF IsEmptyAcct(Get(M.st, o.t)) THEN "0" ELSE "ch@" \o o.t
                  f2 == [f EXCEPT !.pc = @ + 1, !.acc = h]
                  a  == Get(M.st, f.self)
              IN IF o.k \in Slots THEN SetTop([Ms EXCEPT !.st = Put(M.st, f.self, [a EXCEPT !.stor[o.k] = h])], f2)
                 ELSE SetTop(M, f2)
         [] o.op = "RDCOPY"    -> IF f.rd.sz < 32 THEN Finish(M, "fail", RDEmpty)       \* errReturnDataOutOfBounds
                                  ELSE SetTop(M, [f EXCEPT !.pc = @ + 1, !.acc = f.rd.a])
         [] o.op \in {"CALL", "CALLCODE", "DELEGATECALL", "STATICCALL"} -> DoCall(M, o)
         [] o.op \in {"CREATE", "CREATE2"} -> DoCreate(M, o)
         [] o.op = "RETURN"    -> Finish(M, "ok", RD64(f.acc, f.ok))
         [] o.op = "REVERT"    -> Finish(M, "revert", RD64(f.acc, f.ok))
         [] o.op = "INVALID"   -> Finish(M, "fail", RDEmpty)
         [] o.op = "SELFDESTRUCT" ->
              LET me == Get(M.st, f.self)
                  b  == IF o.t = "self" THEN f.self ELSE o.t
                  s1 == Put(M.st, b, [Get(M.st, b) EXCEPT !.ex = TRUE, !.bal = @ + me.bal])
                  s2 == Put(s1, f.self, [Get(s1, f.self) EXCEPT !.bal = 0, !.dead = TRUE])
              IN Finish([Ms EXCEPT !.st = s2], "ok", RDEmpty)
         [] o.op = "BURN" ->
              \* as implemented: every op is charged to ONE budget (evm.gasLeft) shared by all frames and never
              \* restored by a revert; an endless loop empties it, the frame dies, and so does every caller as soon
              \* as it executes anything that costs gas - the whole transaction fails.
              [fr |-> <<>>, st |-> M.fr[1].snapSt, logs |-> <<>>, dev |-> M.dev \cup {"budget"}, mk |-> M.mk,
               res |-> [class |-> "failure", rd |-> RDEmpty]]

Mach == [fr |-> frames, st |-> st, logs |-> logs, res |-> result, dev |-> dev, mk |-> marks]

Install(M) ==
  /\ frames' = M.fr /\ st' = M.st /\ logs' = M.logs /\ result' = M.res /\ dev' = M.dev /\ marks' = M.mk

(* execute the op at the top frame's pc; when the text ends there, choose the next op *)
Step(o) ==
  /\ result.class = "running" /\ frames # <<>>
  /\ LET f == frames[Len(frames)]
         c == f.codeOf
     IN /\ IF f.pc <= Len(code[c]) THEN o = code[c][f.pc]
           ELSE ~done[c] /\ Len(code[c]) < MaxOps /\ o \in Alphabet /\ (o.op = "BURN" => HasBudget)
        /\ code' = IF f.pc <= Len(code[c]) THEN code ELSE [code EXCEPT ![c] = Append(@, o)]
        /\ done' = done
        /\ Install(Apply(Mach, o))

(* the text ends at the top frame's pc: implicit STOP *)
End(c) ==
  /\ result.class = "running" /\ frames # <<>>
  /\ LET f == frames[Len(frames)]
     IN /\ c = f.codeOf /\ f.pc = Len(code[c]) + 1
        /\ done' = [done EXCEPT ![c] = TRUE]
        /\ code' = code
        /\ Install(Finish(Mach, "ok", RDEmpty))

Next == (\E o \in Alphabet : Step(o)) \/ (\E c \in Contracts : End(c))

Spec == Init /\ [][Next]_vars

(* what is left after the transaction: self-destructed accounts and touched-empty accounts are removed
   (StateDB.Finalise(true), forced by state_processor.go) *)
Final == [a \in {x \in DOMAIN st : st[x].ex /\ ~st[x].dead /\ ~IsEmptyAcct(st[x])} |-> st[a]]

-----------------------------------------------------------------------------------
(* sanity of the machine itself (it is the in-tree/reference comparison that decides C10) *)

DepthBound == Len(frames) <= MaxDepth

DoneMeansEmpty == (result.class # "running") <=> (frames = <<>>)

RECURSIVE SumBal(_, _)
SumBal(s, D) == IF D = {} THEN 0 ELSE LET x == CHOOSE y \in D : TRUE IN s[x].bal + SumBal(s, D \ {x})
Total(s) == SumBal(s, DOMAIN s)
\* value is never created; it only disappears when a contract self-destructs in favour of itself
NoValueCreated == Total(st) <= Total(InitSt)

\* under enforced static mode nothing below a static frame changes state or logs
StaticNoWrite ==
  StaticEnforced =>
    \A i \in DOMAIN frames : frames[i].static =>
       LET j == CHOOSE k \in DOMAIN frames : frames[k].static /\ \A m \in DOMAIN frames : frames[m].static => k <= m
       IN st = frames[j].snapSt /\ logs = frames[j].snapLogs

\* a failed transaction leaves the initial state; without a documented or modelled deviation the modes agree
FailureRestores == (result.class \in {"revert", "failure"}) => (st = InitSt /\ logs = <<>>)

RefHasNoDeviation == Mode = "REF" => dev = {}

(* Behaviour export: every finished transaction (program text + outcome) is printed once, on one line.
   It is listed as an invariant only to have TLC evaluate it on every state; it is always TRUE. *)
Emit == result.class \in {"running", "cut"} \/
        PrintT("EMIT " \o ToString([code |-> code, result |-> result, final |-> Final, logs |-> logs, dev |-> dev, marks |-> marks]))
===================================================================================
