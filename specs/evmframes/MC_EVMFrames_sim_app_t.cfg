SPECIFICATION Spec
CONSTANTS
  Contracts <- C3
  Alphabet <- Full3
  MaxOps = 4
  MaxDepth = 3
  Entry = "tramp"
  Mode = "APP"
INVARIANTS DepthBound DoneMeansEmpty NoValueCreated StaticNoWrite FailureRestores RefHasNoDeviation Emit
CHECK_DEADLOCK FALSE
