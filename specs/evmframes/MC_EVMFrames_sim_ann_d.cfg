SPECIFICATION Spec
CONSTANTS
  Contracts <- C3
  Alphabet <- Full3
  MaxOps = 4
  MaxDepth = 4
  Entry = "direct"
  Mode = "ANN"
INVARIANTS DepthBound DoneMeansEmpty NoValueCreated StaticNoWrite FailureRestores RefHasNoDeviation Emit
CHECK_DEADLOCK FALSE
