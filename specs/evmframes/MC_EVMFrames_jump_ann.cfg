SPECIFICATION Spec
CONSTANTS
  Contracts <- C2
  Alphabet <- Jump
  MaxOps = 2
  MaxDepth = 3
  Entry = "direct"
  Mode = "ANN"
INVARIANTS DepthBound DoneMeansEmpty NoValueCreated StaticNoWrite FailureRestores RefHasNoDeviation Emit
CHECK_DEADLOCK FALSE
