SPECIFICATION Spec
CONSTANTS
  Contracts <- C2
  Alphabet <- Deep
  MaxOps = 2
  MaxDepth = 2
  Entry = "tramp"
  Mode = "REF"
INVARIANTS DepthBound DoneMeansEmpty NoValueCreated StaticNoWrite FailureRestores RefHasNoDeviation Emit
CHECK_DEADLOCK FALSE
