----------------------------- MODULE MC_EVMFrames -----------------------------
EXTENDS EVMFrames

Op(op, t, k, v, val) == [op |-> op, t |-> t, k |-> k, v |-> v, val |-> val]
Plain(names) == {Op(n, "-", "-", "-", 0) : n \in names}

C2 == {"A", "B"}
C3 == {"A", "B", "C"}

\* full alphabet (simulation)
Full(Cs) ==
       {Op("SSTORE", "-", k, v, 0) : k \in {"0", "1"}, v \in {"0", "1", "acc", "w1", "w2"}}
  \cup {Op("SLOAD", "-", k, "-", 0) : k \in {"0", "1"}}
  \cup {Op("SETACC", "-", "-", v, 0) : v \in {"0", "1", "2"}}
  \cup Plain({"LOG", "CALLER", "ADDRESS", "CALLVALUE", "CDLOAD", "RDCOPY", "RETURN", "REVERT", "INVALID", "BURN", "HOP"})
  \cup {Op("CALL", t, "-", "-", val) : t \in Cs \cup {"S", "N", "PFE"} \cup Precompiles, val \in {0, 1}}
  \cup {Op("CALLCODE", t, "-", "-", val) : t \in Cs \cup {"N", "P2", "P6", "PFE"}, val \in {0, 1}}
  \cup {Op("DELEGATECALL", t, "-", "-", 0) : t \in Cs \cup {"N", "P4", "P8", "PFE"}}
  \cup {Op("STATICCALL", t, "-", "-", 0) : t \in Cs \cup {"N", "P2", "P3", "PFE"}}
  \cup {Op(c, t, w, "-", 0) : c \in {"CALL", "CALLCODE", "DELEGATECALL", "STATICCALL"}, t \in Cs, w \in {"32", "64"}}
  \cup {Op(c, t, "64", "-", 0) : c \in {"CALL", "CALLCODE", "DELEGATECALL", "STATICCALL"}, t \in {"N", "P2", "P4", "P6", "P8"}}
  \cup {Op("EXTCODEHASH", t, k, "-", 0) : t \in Cs \cup {"S", "N", "P2", "PFE"}, k \in {"-", "1"}}
  \cup {Op("CREATE", t, "-", "-", val) : t \in Cs, val \in {0, 1}}
  \cup {Op("CREATE2", t, "-", "-", 0) : t \in Cs}
  \cup {Op("SELFDESTRUCT", t, "-", "-", 0) : t \in {"S", "N", "self"}}
Full2 == Full(C2)
Full3 == Full(C3)

\* small alphabets (exhaustive): state/journal/static core, and creation core
Core ==
       {Op("SSTORE", "-", "0", "1", 0), Op("SLOAD", "-", "0", "-", 0), Op("CALL", "B", "-", "-", 1),
        Op("STATICCALL", "B", "-", "-", 0), Op("DELEGATECALL", "B", "-", "-", 0), Op("CALL", "A", "-", "-", 0),
        Op("SETACC", "-", "-", "1", 0)}
  \cup Plain({"LOG", "RETURN", "REVERT", "INVALID", "RDCOPY"})
Creation ==
       {Op("SSTORE", "-", "0", "acc", 0), Op("CREATE", "B", "-", "-", 1), Op("CREATE2", "B", "-", "-", 0),
        Op("CALL", "B", "-", "-", 0), Op("SELFDESTRUCT", "S", "-", "-", 0), Op("SELFDESTRUCT", "self", "-", "-", 0),
        Op("CALL", "PFE", "-", "-", 1), Op("CALL", "P6", "-", "-", 0)}
  \cup Plain({"ADDRESS", "RETURN", "REVERT", "BURN"})
\* output window of the CALL family x outcome of the callee (return / revert with payload / failure / no code / precompile)
Window ==
       {Op("DELEGATECALL", "B", "64", "-", 0), Op("CALL", "B", "32", "-", 0), Op("STATICCALL", "B", "64", "-", 0),
        Op("CALLCODE", "B", "64", "-", 0), Op("CALL", "P4", "64", "-", 0), Op("DELEGATECALL", "P6", "32", "-", 0),
        Op("STATICCALL", "N", "64", "-", 0), Op("SSTORE", "-", "0", "w1", 0), Op("SSTORE", "-", "1", "w2", 0),
        Op("SETACC", "-", "-", "1", 0)}
  \cup Plain({"RETURN", "REVERT", "INVALID"})

\* account inspection after the account was touched / funded / destroyed in the same transaction
Inspect ==
       {Op("CALL", "P2", "-", "-", 0), Op("CALL", "P2", "-", "-", 1), Op("STATICCALL", "P2", "-", "-", 0), Op("CALL", "N", "-", "-", 0),
        Op("CALL", "N", "-", "-", 1), Op("CALL", "B", "-", "-", 0), Op("SELFDESTRUCT", "N", "-", "-", 0),
        Op("EXTCODEHASH", "P2", "0", "-", 0), Op("EXTCODEHASH", "N", "1", "-", 0), Op("EXTCODEHASH", "B", "0", "-", 0),
        Op("EXTCODEHASH", "S", "1", "-", 0), Op("EXTCODEHASH", "N", "-", "-", 0)}
  \cup Plain({"RETURN", "REVERT"})

\* jumps inside caller and callee frames of all four call kinds, both orders of who jumps first
Jump ==
       {Op("CALLCODE", "B", "-", "-", 0), Op("DELEGATECALL", "B", "-", "-", 0), Op("CALL", "B", "-", "-", 0), Op("STATICCALL", "B", "-", "-", 0),
        Op("CALLCODE", "A", "-", "-", 0), Op("SSTORE", "-", "0", "1", 0), Op("SETACC", "-", "-", "1", 0)}
  \cup Plain({"HOP", "LOG", "RETURN", "REVERT"})

\* recursion into the depth limit (Entry = "tramp")
Deep ==
       {Op("CALL", "A", "-", "-", 0), Op("CALL", "B", "-", "-", 1), Op("DELEGATECALL", "A", "-", "-", 0), Op("STATICCALL", "A", "-", "-", 0),
        Op("CREATE", "B", "-", "-", 0), Op("CREATE", "A", "-", "-", 0), Op("SSTORE", "-", "1", "acc", 0), Op("SETACC", "-", "-", "1", 0)}
  \cup Plain({"LOG", "RETURN", "REVERT", "RDCOPY"})
=================================================================================
