SPECIFICATION Spec
CONSTANTS
  MaxH = 2
  MaxCrash = 1
  MaxParts = 1
  MaxTrie = 1
  KvHeights <- NoKv
  ValHeights <- Val2
  Legacy = FALSE
  KvIdem = TRUE
  SwapVals = TRUE
INVARIANTS TypeOK RecoveryTerminates DeadBranchesDead RecoveredConsistent AppliedExactlyOnce NoBlockLost

CHECK_DEADLOCK FALSE
