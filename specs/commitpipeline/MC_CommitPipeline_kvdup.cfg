SPECIFICATION Spec
CONSTANTS
  MaxH = 2
  MaxCrash = 1
  MaxParts = 1
  MaxTrie = 1
  KvHeights <- KvH2
  ValHeights <- Val2
  Legacy = FALSE
  KvIdem = FALSE
  SwapVals = FALSE
INVARIANTS TypeOK RecoveryTerminates DeadBranchesDead RecoveredConsistent AppliedExactlyOnce NoBlockLost

CHECK_DEADLOCK FALSE
