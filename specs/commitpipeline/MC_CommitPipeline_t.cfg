SPECIFICATION Spec
CONSTANTS
  MaxH = 3
  MaxCrash = 3
  MaxParts = 2
  MaxTrie = 2
  KvHeights <- KvH12
  ValHeights <- Val23
  Legacy = FALSE
  KvIdem = TRUE
  SwapVals = FALSE
INVARIANTS TypeOK RecoveryTerminates DeadBranchesDead RecoveredConsistent AppliedExactlyOnce NoBlockLost
PROPERTIES Progress
CHECK_DEADLOCK FALSE
