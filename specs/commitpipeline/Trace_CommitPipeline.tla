----------------------- MODULE Trace_CommitPipeline -----------------------
(***************************************************************************)
(* Trace validation (T): the durable-write log recorded by gemmill/verifhook*)
(* in UNCRASHED runs of the real node (one ndjson object per write; WAL     *)
(* writes carry the class of the line written; process restarts between the *)
(* runs appear as "Restart") must be a behaviour of CommitPipeline.  Steps   *)
(* of the restart path that do not write are composed in silently.          *)
(* Acceptance: POSTCONDITION Accepted (high-water mark of consumed events). *)
(***************************************************************************)
EXTENDS CommitPipeline, Json
VARIABLE l

Trace == ndJsonDeserialize("trace.ndjson")
N == Len(Trace)
Ev == Trace[l]
Is(name) == l <= N /\ Ev.ev = name /\ l' = l + 1
AtH(h) == Ev.h = h
Silent == UNCHANGED l
\* heights whose block carries kv transactions (the engine knows them from the chain it read back)
TraceKv == IF N = 0 THEN {} ELSE {Trace[1].kvh[k] : k \in DOMAIN Trace[1].kvh}
TraceVal == IF N = 0 THEN {} ELSE {Trace[1].valh[k] : k \in DOMAIN Trace[1].valh}

TInit == Init /\ l = 1

TNext ==
  \/ Is("WalTimeout") /\ AtH(csH) /\ W_Timeout
  \/ Is("WriteFileAtomic.bak:signer") /\ S_bak
  \/ Is("WriteFileAtomic.new:signer") /\ S_new
  \/ Is("WriteFileAtomic.rename:signer") /\ S_rename
  \/ Is("WalStepPropose") /\ AtH(csH) /\ W_StepPropose
  \/ Is("WalProposal") /\ AtH(csH) /\ W_Proposal
  \/ Is("WalPart") /\ AtH(csH) /\ W_Part
  \/ Is("WalStepPrevote") /\ AtH(csH) /\ W_StepPrevote
  \/ Is("WalPrevote") /\ AtH(csH) /\ W_Prevote
  \/ Is("WalStepPrecommit") /\ AtH(csH) /\ W_StepPrecommit
  \/ Is("WalPrecommit") /\ AtH(csH) /\ W_Precommit
  \/ Is("WalStepCommit") /\ AtH(csH) /\ W_StepCommit
  \/ Is("BsH") /\ AtH(csH) /\ BsMeta
  \/ Is("BsP") /\ AtH(csH) /\ BsPart
  \/ Is("BsC") /\ AtH(csH - 1) /\ BsCommit
  \/ Is("BsSC") /\ AtH(csH) /\ BsSeen
  \/ Is("gldb.SetSync:blockStore") /\ BsDesc
  \/ Is("gldb.SetSync") /\ BsFlush
  \/ Is("gldb.BatchWrite") /\ Plugin
  \/ Is("gldb.SetSync:stateIntermediateKey") /\ StInter
  \/ Is("ethdb.BatchWrite") /\ (Trie \/ Rcpt \/ KvHist \/ R_GenTrie)
  \/ Is("gldb.SetSync:lastreceipts") /\ LastRcpt
  \/ Is("gldb.SetSync:lastblock") /\ (AppLast \/ R_GenLast)
  \/ Is("gldb.SetSync:stateKey") /\ (StSave \/ R_GenSave \/ R_CompleteSave)
  \/ Is("gldb.SetSync:stateKey.proposer") /\ (StSaveProp \/ R_GenProp \/ R_CompleteProp)
  \/ Is("gldb.SetSync:stateIntermediateKey.proposer") /\ StInterProp
  \* a durable write the specification does not know (recorded by the engine as unmodelled): no effect
  \/ Is("Other") /\ UNCHANGED vars
  \/ Is("WalHeight") /\ (  (W_Mark /\ AtH(csH))
                        \/ (R_Cons /\ wal.mark = 0 /\ AtH(1))
                        \/ (R_WalCheck /\ wal.mark < csH /\ AtH(csH)))
  \/ Is("WalStepNewHeight") /\ AtH(csH) /\ (W_NewHeight \/ R_WalStep)
  \/ Is("Restart") /\ Crash
  \* steps of the restart path that write nothing
  \/ Silent /\ R_Load
  \/ Silent /\ R_Complete
  \/ Silent /\ R_Hack
  \/ Silent /\ R_Cons /\ wal.mark # 0
  \/ Silent /\ R_Recover
  \/ Silent /\ R_AppStart
  \/ Silent /\ R_WalCheck /\ wal.mark >= csH
  \/ Silent /\ R_Replay

TSpec == TInit /\ [][TNext]_<<vars, l>>

\* high-water mark of the events consumed on any explored path (evaluated on every state; -workers 1)
HighWater == TLCSet(42, IF TLCGet(42) < l THEN l ELSE TLCGet(42))
ASSUME TLCSet(42, 0)
Accepted ==
  IF TLCGet(42) = N + 1 THEN TRUE
  ELSE Print(<<"TRACE-REJECTED-AT", TLCGet(42), Trace[TLCGet(42)]>>, FALSE)
=============================================================================
