--------------------------- MODULE CommitPipeline ---------------------------
(***************************************************************************)
(* Crash-atomic commit of ONE AnnChain node (property C06).                *)
(*                                                                         *)
(* Every action of mode "run" below is ONE durable write of the real node, *)
(* in the program order of the code (measured with the gemmill/verifhook   *)
(* failpoints and transcribed from the sources):                           *)
(*                                                                         *)
(*  consensus round (gemmill/consensus/pbft/state.go, wal.go,              *)
(*  types/priv_validator.go; cmn.WriteFileAtomic = .bak / .new / rename):  *)
(*    W_Timeout | S_bak S_new S_rename (proposal) | W_StepPropose          *)
(*    W_Proposal W_Part* | S_* (prevote) | W_StepPrevote W_Prevote |       *)
(*    S_* (precommit) | W_StepPrecommit W_Precommit W_StepCommit           *)
(*  finalizeCommit -> BlockStore.SaveBlock (gemmill/blockchain/store.go):  *)
(*    BsMeta(H:h) BsPart(P:h:i)* BsCommit(C:h-1) BsSeen(SC:h)              *)
(*    BsDesc(blockStore descriptor = visibility point) BsFlush             *)
(*  State.ApplyBlock (gemmill/state/execution.go):                         *)
(*    Plugin (query-cache batch) StInterProp StInter (proposer record,     *)
(*    stateIntermediateKey)                                                *)
(*  EVMApp.OnCommit (chain/app/evm/evm.go):                                *)
(*    Trie* (trie node batches) Rcpt (receipts + kv records)               *)
(*    KvHist (kv update history, only blocks with kv transactions)         *)
(*    LastRcpt (lastreceipts record) AppLast (lastblock = commit point)    *)
(*    [Legacy = TRUE, the code before the repair: AppLast Rcpt KvHist]     *)
(*  finalizeCommit: StSaveProp StSave (proposer record, stateKey) ;        *)
(*  updateToState -> newStep:                                              *)
(*    W_Mark ("#HEIGHT: h+1") W_NewHeight                                  *)
(*                                                                         *)
(* Crash is enabled between any two of them and inside recovery.  Recovery *)
(* (mode "rec") is transcribed branch by branch from the restart path:     *)
(* LoadState / NewBlockStore, Angine.completeInterruptedCommit (the        *)
(* repair), the NewBlockchainReactor height adjustment, NewConsensusState  *)
(* (reconstructLastCommit, WAL open), Angine.RecoverFromCrash, EVMApp.Start*)
(* (genesis), ConsensusState.OnStart (height marker check) and             *)
(* catchupReplay.                                                          *)
(*                                                                         *)
(* Abstractions: one validator (the binding runs a single-validator node); *)
(* hashes are symbolic: the application root is the SEQUENCE of executed   *)
(* heights, ReceiptsHash of block h is the number h; a round without a     *)
(* proposal (signer refuses to re-sign a different proposal) is one atomic *)
(* NilRound step.                                                          *)
(***************************************************************************)
EXTENDS Integers, Sequences, FiniteSets, TLC

CONSTANTS MaxH,      \* heights to commit in one behaviour
          MaxCrash,  \* number of crashes in one behaviour
          MaxParts,  \* a block has 1..MaxParts parts
          MaxTrie,   \* the application writes 1..MaxTrie trie node batches per commit
          KvHeights, \* heights whose block carries kv transactions (extra kv-history batch)
          ValHeights,\* heights whose block changes the validator set (admin transaction)
          Legacy,    \* TRUE = code before fix 7ae3f0c/0bf6af3 (no completion step, lastblock before receipts)
          KvIdem,    \* FALSE = code before fix 8eeaa6a (kv history appended again on re-execution)
          SwapVals   \* TRUE = code before fix 2096131 (LoadIntermediate swaps Validators / LastValidators)

VARIABLES
  \* ---------------- durable
  wal,       \* [mark, round, lines, parts, blk]: highest "#HEIGHT" line and what follows it
  signer,    \* [h, r, s, blk]: last signed height/round/step (1 proposal, 2 prevote, 3 precommit)
  bs,        \* block store items: [H, P, C, SC]
  desc,      \* block store descriptor (BlockStoreStateJSON.Height)
  plug,      \* heights whose plugin batch is stored
  inter,     \* stateIntermediateKey
  stkey,     \* stateKey
  trie,      \* application roots completely stored
  rcpt,      \* heights whose receipts / kv records are stored
  kvh,       \* [height -> how many times its updates sit in the kv update history]
  lastRcpt,  \* lastreceipts record [h, rh]
  appLast,   \* lastblock record [h, root]
  prop,      \* [key, inter]: height tags of the proposer records stored next to stateKey / stateIntermediateKey
  \* ---------------- volatile (lost by Crash)
  mode,      \* "rec" | "run" | "panic" | "dead" | "done"
  pc,        \* next durable write / recovery step
  i,         \* loop counter (parts, trie batches)
  sg,        \* signature in progress: [s, next]
  mStore,    \* BlockStore.height in memory (after the reactor's adjustment)
  mState,    \* the State object shared by Angine and ConsensusState
  csH, csR,  \* ConsensusState.Height / Round
  csBlk,     \* ProposalBlock
  exRoot,    \* root produced by OnExecute (EVMApp.currentState)
  \* ---------------- history
  crashes, readable, ver

durable  == <<wal, signer, bs, desc, plug, inter, stkey, trie, rcpt, kvh, lastRcpt, appLast, prop>>
volatile == <<mode, pc, i, sg, mStore, mState, csH, csR, csBlk, exRoot>>
hist     == <<crashes, readable, ver>>
vars     == <<durable, volatile, hist>>

Heights == 1..(MaxH + 1)
NoBlk   == [v |-> 0, h |-> 0, root |-> <<>>, rh |-> 0, np |-> 0]
\* vals / lvals: State.Validators / State.LastValidators, named by the height of the last change they contain
NoState == [h |-> -1, root |-> <<>>, rh |-> 0, vals |-> 0, lvals |-> 0]
Genesis == [h |-> 0, root |-> <<>>, rh |-> 0, vals |-> 0, lvals |-> 0]
ValsAfter(h) == IF {x \in ValHeights : x <= h} = {} THEN 0
                ELSE CHOOSE x \in ValHeights : x <= h /\ \A y \in ValHeights : y <= h => y <= x
NoApp   == [h |-> -1, root |-> <<>>]
NoRcpt  == [h |-> -1, rh |-> 0]
NoSg    == [s |-> 0, next |-> "none"]
UpTo(n) == [k \in 1..n |-> k]                   \* the root after executing 1..n once each, in order
WalAt(h) == [mark |-> h, round |-> 0, lines |-> {}, parts |-> 0, blk |-> NoBlk]

Init ==
  /\ wal = WalAt(0)
  /\ signer = [h |-> 0, r |-> 0, s |-> 0, blk |-> NoBlk]
  /\ bs = [H |-> [h \in Heights |-> NoBlk], P |-> [h \in Heights |-> [blk |-> NoBlk, n |-> 0]],
           C |-> {}, SC |-> [h \in Heights |-> NoBlk]]
  /\ desc = 0 /\ plug = {} /\ inter = NoState /\ stkey = NoState /\ trie = {} /\ rcpt = {}
  /\ kvh = [h \in Heights |-> 0] /\ lastRcpt = NoRcpt /\ appLast = NoApp
  /\ prop = [key |-> -1, inter |-> -1]
  /\ mode = "rec" /\ pc = "r_load" /\ i = 0 /\ sg = NoSg /\ mStore = 0 /\ mState = NoState
  /\ csH = 0 /\ csR = 0 /\ csBlk = NoBlk /\ exRoot = <<>>
  /\ crashes = 0 /\ readable = [h \in Heights |-> NoBlk] /\ ver = 0

----------------------------------------------------------------------------
(* consensus: what has to be signed next, and whether the signer file allows it *)

\* privVal.signBytesHRS for a vote on csBlk at step s (2 prevote, 3 precommit): the same HRS with the same
\* sign bytes returns the stored signature without writing; a later HRS is signed and saved.
VoteNext(s, next, blk) ==
  IF signer.h = csH /\ signer.r = csR /\ signer.s = s /\ signer.blk = blk
  THEN /\ pc' = next /\ sg' = NoSg
  ELSE /\ pc' = "S_bak" /\ sg' = [s |-> s, next |-> next]

\* decideProposal creates a NEW block (new time stamp): signing is refused ("Step regression") when a
\* proposal for this height/round was already signed -> no proposal in this round.
ProposeNext ==
  IF signer.h = csH /\ signer.r = csR /\ signer.s >= 1
  THEN /\ pc' = "NilRound" /\ sg' = NoSg /\ csBlk' = NoBlk /\ ver' = ver
  ELSE /\ pc' = "S_bak" /\ sg' = [s |-> 1, next |-> "W_StepPropose"]
       /\ \E np \in 1..MaxParts :
            csBlk' = [v |-> ver + 1, h |-> csH, root |-> mState.root, rh |-> mState.rh, np |-> np]
       /\ ver' = ver + 1

Running(p) == mode = "run" /\ pc = p
WalLine(l) == wal' = [wal EXCEPT !.lines = @ \cup {l}]

W_Timeout ==
  /\ Running("W_Timeout") /\ stkey.h < MaxH
  /\ WalLine("Timeout") /\ ProposeNext
  /\ UNCHANGED <<prop, signer, bs, desc, plug, inter, stkey, trie, rcpt, kvh, lastRcpt, appLast,
                 mode, i, mStore, mState, csH, csR, exRoot, crashes, readable>>

S_bak ==
  /\ Running("S_bak") /\ pc' = "S_new"
  /\ UNCHANGED <<durable, mode, i, sg, mStore, mState, csH, csR, csBlk, exRoot, hist>>
S_new ==
  /\ Running("S_new") /\ pc' = "S_rename"
  /\ UNCHANGED <<durable, mode, i, sg, mStore, mState, csH, csR, csBlk, exRoot, hist>>
S_rename ==
  /\ Running("S_rename")
  /\ signer' = [h |-> csH, r |-> csR, s |-> sg.s, blk |-> csBlk]
  /\ pc' = sg.next /\ sg' = NoSg
  /\ UNCHANGED <<prop, wal, bs, desc, plug, inter, stkey, trie, rcpt, kvh, lastRcpt, appLast,
                 mode, i, mStore, mState, csH, csR, csBlk, exRoot, hist>>

W_StepPropose ==
  /\ Running("W_StepPropose") /\ WalLine("StepPropose") /\ pc' = "W_Proposal"
  /\ UNCHANGED <<prop, signer, bs, desc, plug, inter, stkey, trie, rcpt, kvh, lastRcpt, appLast,
                 mode, i, sg, mStore, mState, csH, csR, csBlk, exRoot, hist>>
W_Proposal ==
  /\ Running("W_Proposal")
  /\ wal' = [wal EXCEPT !.lines = @ \cup {"Proposal"}, !.blk = csBlk, !.parts = 0]
  /\ pc' = "W_Part"
  /\ UNCHANGED <<prop, signer, bs, desc, plug, inter, stkey, trie, rcpt, kvh, lastRcpt, appLast,
                 mode, i, sg, mStore, mState, csH, csR, csBlk, exRoot, hist>>
W_Part ==
  /\ Running("W_Part")
  /\ wal' = [wal EXCEPT !.parts = @ + 1]
  /\ IF wal.parts + 1 = csBlk.np THEN VoteNext(2, "W_StepPrevote", csBlk) ELSE pc' = pc /\ sg' = sg
  /\ UNCHANGED <<prop, signer, bs, desc, plug, inter, stkey, trie, rcpt, kvh, lastRcpt, appLast,
                 mode, i, mStore, mState, csH, csR, csBlk, exRoot, hist>>
W_StepPrevote ==
  /\ Running("W_StepPrevote") /\ WalLine("StepPrevote") /\ pc' = "W_Prevote"
  /\ UNCHANGED <<prop, signer, bs, desc, plug, inter, stkey, trie, rcpt, kvh, lastRcpt, appLast,
                 mode, i, sg, mStore, mState, csH, csR, csBlk, exRoot, hist>>
W_Prevote ==
  /\ Running("W_Prevote") /\ WalLine("Prevote") /\ VoteNext(3, "W_StepPrecommit", csBlk)
  /\ UNCHANGED <<prop, signer, bs, desc, plug, inter, stkey, trie, rcpt, kvh, lastRcpt, appLast,
                 mode, i, mStore, mState, csH, csR, csBlk, exRoot, hist>>
W_StepPrecommit ==
  /\ Running("W_StepPrecommit") /\ WalLine("StepPrecommit") /\ pc' = "W_Precommit"
  /\ UNCHANGED <<prop, signer, bs, desc, plug, inter, stkey, trie, rcpt, kvh, lastRcpt, appLast,
                 mode, i, sg, mStore, mState, csH, csR, csBlk, exRoot, hist>>
W_Precommit ==
  /\ Running("W_Precommit") /\ WalLine("Precommit") /\ pc' = "W_StepCommit"
  /\ UNCHANGED <<prop, signer, bs, desc, plug, inter, stkey, trie, rcpt, kvh, lastRcpt, appLast,
                 mode, i, sg, mStore, mState, csH, csR, csBlk, exRoot, hist>>

\* finalizeCommit entry: cs.state.ValidateBlock(block) must hold (else PanicConsensus); SaveBlock is skipped
\* when the store already has the height ("Why are we finalizeCommitting a block height we already have?").
BlockValid(b, st) == b.h = st.h + 1 /\ b.root = st.root /\ b.rh = st.rh
EnterCommit ==
  IF ~BlockValid(csBlk, mState) THEN mode' = "panic" /\ pc' = "panic:finalizeCommit-invalid-block"
  ELSE /\ mode' = mode
       /\ pc' = IF mStore < csH THEN "BsMeta" ELSE "Plugin"
W_StepCommit ==
  /\ Running("W_StepCommit") /\ WalLine("StepCommit") /\ EnterCommit
  /\ exRoot' = Append(appLast.root, csH)        \* OnExecute starts from getLastAppHash()
  /\ UNCHANGED <<prop, signer, bs, desc, plug, inter, stkey, trie, rcpt, kvh, lastRcpt, appLast,
                 i, sg, mStore, mState, csH, csR, csBlk, hist>>

\* A round in which this (only) validator cannot propose: prevote nil, precommit nil, next round.
NilRound ==
  /\ Running("NilRound")
  /\ signer' = [h |-> csH, r |-> csR, s |-> 3, blk |-> NoBlk]
  /\ wal' = [wal EXCEPT !.round = csR + 1, !.lines = {}, !.parts = 0, !.blk = NoBlk]
  /\ csR' = csR + 1
  /\ pc' = "S_bak" /\ sg' = [s |-> 1, next |-> "W_StepPropose"]
  /\ \E np \in 1..MaxParts :
       csBlk' = [v |-> ver + 1, h |-> csH, root |-> mState.root, rh |-> mState.rh, np |-> np]
  /\ ver' = ver + 1
  /\ UNCHANGED <<prop, bs, desc, plug, inter, stkey, trie, rcpt, kvh, lastRcpt, appLast,
                 mode, i, mStore, mState, csH, exRoot, crashes, readable>>

----------------------------------------------------------------------------
(* BlockStore.SaveBlock *)
\* (re-)writing the items of a block that is already stored puts the same bytes under the same keys
BsMeta ==
  /\ Running("BsMeta")
  /\ bs' = [bs EXCEPT !.H[csH] = csBlk,
                      !.P[csH] = IF @.blk = csBlk THEN @ ELSE [blk |-> csBlk, n |-> 0]]
  /\ pc' = "BsPart" /\ i' = 0
  /\ UNCHANGED <<prop, wal, signer, desc, plug, inter, stkey, trie, rcpt, kvh, lastRcpt, appLast,
                 mode, sg, mStore, mState, csH, csR, csBlk, exRoot, hist>>
BsPart ==
  /\ Running("BsPart")
  /\ bs' = [bs EXCEPT !.P[csH].n = IF @ > i + 1 THEN @ ELSE i + 1]
  /\ i' = i + 1
  /\ pc' = IF i + 1 = csBlk.np THEN "BsCommit" ELSE pc
  /\ UNCHANGED <<prop, wal, signer, desc, plug, inter, stkey, trie, rcpt, kvh, lastRcpt, appLast,
                 mode, sg, mStore, mState, csH, csR, csBlk, exRoot, hist>>
BsCommit ==
  /\ Running("BsCommit") /\ bs' = [bs EXCEPT !.C = @ \cup {csH - 1}] /\ pc' = "BsSeen"
  /\ UNCHANGED <<prop, wal, signer, desc, plug, inter, stkey, trie, rcpt, kvh, lastRcpt, appLast,
                 mode, i, sg, mStore, mState, csH, csR, csBlk, exRoot, hist>>
BsSeen ==
  /\ Running("BsSeen") /\ bs' = [bs EXCEPT !.SC[csH] = csBlk] /\ pc' = "BsDesc"
  /\ UNCHANGED <<prop, wal, signer, desc, plug, inter, stkey, trie, rcpt, kvh, lastRcpt, appLast,
                 mode, i, sg, mStore, mState, csH, csR, csBlk, exRoot, hist>>
BsDesc ==
  /\ Running("BsDesc") /\ desc' = csH /\ mStore' = csH /\ pc' = "BsFlush"
  /\ readable' = [readable EXCEPT ![csH] = IF @ = NoBlk THEN csBlk ELSE @]
  /\ UNCHANGED <<prop, wal, signer, bs, plug, inter, stkey, trie, rcpt, kvh, lastRcpt, appLast,
                 mode, i, sg, mState, csH, csR, csBlk, exRoot, crashes, ver>>
BsFlush ==
  /\ Running("BsFlush") /\ pc' = "Plugin"
  /\ UNCHANGED <<durable, mode, i, sg, mStore, mState, csH, csR, csBlk, exRoot, hist>>

(* State.ApplyBlock: ExecBlock (plugins, OnExecute in memory, SaveIntermediate), then the application's commit *)
Plugin ==
  /\ Running("Plugin") /\ plug' = plug \cup {csH} /\ pc' = "StInterProp"
  /\ UNCHANGED <<prop, wal, signer, bs, desc, inter, stkey, trie, rcpt, kvh, lastRcpt, appLast,
                 mode, i, sg, mStore, mState, csH, csR, csBlk, exRoot, hist>>
\* State.saveProposer (fix 2ccc403): the proposer cached in the validator set, tagged with the height, is
\* written immediately before the state record it belongs to; loadState ignores a record with another height
StInterProp ==
  /\ Running("StInterProp") /\ prop' = [prop EXCEPT !.inter = csH] /\ pc' = "StInter"
  /\ UNCHANGED <<wal, signer, bs, desc, plug, inter, stkey, trie, rcpt, kvh, lastRcpt, appLast,
                 mode, i, sg, mStore, mState, csH, csR, csBlk, exRoot, hist>>
StSaveProp ==
  /\ Running("StSaveProp") /\ prop' = [prop EXCEPT !.key = csH] /\ pc' = "StSave"
  /\ UNCHANGED <<wal, signer, bs, desc, plug, inter, stkey, trie, rcpt, kvh, lastRcpt, appLast,
                 mode, i, sg, mStore, mState, csH, csR, csBlk, exRoot, hist>>
StInter ==
  /\ Running("StInter")
  /\ inter' = [h |-> csH, root |-> mState.root, rh |-> mState.rh,       \* new height, STALE hashes,
               vals |-> IF csH \in ValHeights THEN csH ELSE mState.vals, \* validators after EndBlock
               lvals |-> mState.vals]
  /\ pc' = "Trie" /\ i' = 0
  /\ UNCHANGED <<prop, wal, signer, bs, desc, plug, stkey, trie, rcpt, kvh, lastRcpt, appLast,
                 mode, sg, mStore, mState, csH, csR, csBlk, exRoot, hist>>
AfterTrie == IF Legacy THEN "AppLast" ELSE "Rcpt"
Trie ==
  /\ Running("Trie") /\ i < MaxTrie
  /\ \/ /\ i' = i + 1 /\ i + 1 < MaxTrie /\ pc' = pc /\ trie' = trie        \* one more batch follows
     \/ /\ i' = 0 /\ pc' = AfterTrie /\ trie' = trie \cup {exRoot}           \* last batch: root complete
  /\ UNCHANGED <<prop, wal, signer, bs, desc, plug, inter, stkey, rcpt, kvh, lastRcpt, appLast,
                 mode, sg, mStore, mState, csH, csR, csBlk, exRoot, hist>>
AfterRcpt == IF csH \in KvHeights THEN "KvHist" ELSE IF Legacy THEN "StSaveProp" ELSE "LastRcpt"
Rcpt ==
  /\ Running("Rcpt") /\ rcpt' = rcpt \cup {csH} /\ pc' = AfterRcpt
  /\ UNCHANGED <<prop, wal, signer, bs, desc, plug, inter, stkey, trie, kvh, lastRcpt, appLast,
                 mode, i, sg, mStore, mState, csH, csR, csBlk, exRoot, hist>>
KvHist ==
  /\ Running("KvHist")
  /\ kvh' = [kvh EXCEPT ![csH] = IF KvIdem THEN 1 ELSE @ + 1]
  /\ pc' = IF Legacy THEN "StSaveProp" ELSE "LastRcpt"
  /\ UNCHANGED <<prop, wal, signer, bs, desc, plug, inter, stkey, trie, rcpt, lastRcpt, appLast,
                 mode, i, sg, mStore, mState, csH, csR, csBlk, exRoot, hist>>
LastRcpt ==
  /\ Running("LastRcpt") /\ lastRcpt' = [h |-> csH, rh |-> csH] /\ pc' = "AppLast"
  /\ UNCHANGED <<prop, wal, signer, bs, desc, plug, inter, stkey, trie, rcpt, kvh, appLast,
                 mode, i, sg, mStore, mState, csH, csR, csBlk, exRoot, hist>>
AppLast ==
  /\ Running("AppLast") /\ appLast' = [h |-> csH, root |-> exRoot]
  /\ pc' = IF Legacy THEN "Rcpt" ELSE "StSaveProp"
  /\ UNCHANGED <<prop, wal, signer, bs, desc, plug, inter, stkey, trie, rcpt, kvh, lastRcpt,
                 mode, i, sg, mStore, mState, csH, csR, csBlk, exRoot, hist>>
\* finalizeCommit: stateCopy.Save(); updateToState(stateCopy) -> height+1, round 0
StSave ==
  /\ Running("StSave")
  /\ stkey' = [h |-> csH, root |-> exRoot, rh |-> csH,
               vals |-> IF csH \in ValHeights THEN csH ELSE mState.vals, lvals |-> mState.vals]
  /\ mState' = stkey' /\ csH' = csH + 1 /\ csR' = 0 /\ csBlk' = NoBlk /\ pc' = "W_Mark"
  /\ UNCHANGED <<prop, wal, signer, bs, desc, plug, inter, trie, rcpt, kvh, lastRcpt, appLast,
                 mode, i, sg, mStore, exRoot, hist>>
W_Mark ==
  /\ Running("W_Mark") /\ wal' = WalAt(csH) /\ pc' = "W_NewHeight"
  /\ UNCHANGED <<prop, signer, bs, desc, plug, inter, stkey, trie, rcpt, kvh, lastRcpt, appLast,
                 mode, i, sg, mStore, mState, csH, csR, csBlk, exRoot, hist>>
W_NewHeight ==
  /\ Running("W_NewHeight") /\ WalLine("NewHeight") /\ pc' = "W_Timeout"
  /\ UNCHANGED <<prop, signer, bs, desc, plug, inter, stkey, trie, rcpt, kvh, lastRcpt, appLast,
                 mode, i, sg, mStore, mState, csH, csR, csBlk, exRoot, hist>>

\* the pause between two heights (timeout_commit): nothing in flight
Quiescent == mode = "run" /\ pc = "W_Timeout" /\ wal.mark = csH /\ wal.round = 0 /\ wal.lines \subseteq {"NewHeight"}

Finish ==
  /\ Quiescent /\ stkey.h >= MaxH /\ mode' = "done"
  /\ UNCHANGED <<durable, pc, i, sg, mStore, mState, csH, csR, csBlk, exRoot, hist>>

----------------------------------------------------------------------------
(* Crash: the process dies (kill -9 / os.Exit): everything already handed to the OS stays *)
Crash ==
  /\ mode \in {"run", "rec"} /\ crashes < MaxCrash
  /\ crashes' = crashes + 1
  /\ mode' = "rec" /\ pc' = "r_load" /\ i' = 0 /\ sg' = NoSg /\ mStore' = 0 /\ mState' = NoState
  /\ csH' = 0 /\ csR' = 0 /\ csBlk' = NoBlk /\ exRoot' = <<>>
  /\ UNCHANGED <<durable, readable, ver>>

----------------------------------------------------------------------------
(* Recovery = chain/core.NewNode + Node.Start, step by step.  Steps that write are durable writes too. *)
Rec(p) == mode = "rec" /\ pc = p
Panic(why) == mode' = "panic" /\ pc' = why

\* getOrMakeState: LoadState(stateKey) or genesis state (saved at once); NewBlockStore reads the descriptor
R_Load ==
  /\ Rec("r_load")
  /\ mState' = IF stkey = NoState THEN Genesis ELSE stkey
  /\ mStore' = desc
  /\ pc' = IF stkey = NoState THEN "r_genProp" ELSE IF Legacy THEN "r_hack" ELSE "r_complete"
  /\ UNCHANGED <<durable, mode, i, sg, csH, csR, csBlk, exRoot, hist>>
R_GenProp ==
  /\ Rec("r_genProp") /\ prop' = [prop EXCEPT !.key = 0] /\ pc' = "r_genSave"   \* gldb.SetSync stateKey.proposer
  /\ UNCHANGED <<wal, signer, bs, desc, plug, inter, stkey, trie, rcpt, kvh, lastRcpt, appLast,
                 mode, i, sg, mStore, mState, csH, csR, csBlk, exRoot, hist>>
R_GenSave ==
  /\ Rec("r_genSave") /\ stkey' = Genesis                                       \* gldb.SetSync stateKey
  /\ pc' = IF Legacy THEN "r_hack" ELSE "r_complete"
  /\ UNCHANGED <<prop, wal, signer, bs, desc, plug, inter, trie, rcpt, kvh, lastRcpt, appLast,
                 mode, i, sg, mStore, mState, csH, csR, csBlk, exRoot, hist>>

\* State.LoadIntermediate: sanity checks against the state it extends
InterFits(st) == inter # NoState /\ inter.h = st.h + 1 /\ inter.root = st.root /\ inter.rh = st.rh
                 /\ inter.lvals = st.vals

\* Angine.completeInterruptedCommit (fix 7ae3f0c): application committed H, State.Save() did not happen
R_Complete ==
  /\ Rec("r_complete")
  /\ IF mStore # 0 /\ mState.h + 1 = mStore /\ appLast.h = mStore
     THEN IF InterFits(mState)
          THEN /\ mState' = [h |-> inter.h, root |-> appLast.root,
                             rh |-> IF lastRcpt.h = appLast.h THEN lastRcpt.rh ELSE 0,
                             vals |-> IF SwapVals THEN inter.lvals ELSE inter.vals,
                             lvals |-> IF SwapVals THEN inter.vals ELSE inter.lvals]
               /\ pc' = "r_completeProp" /\ mode' = mode
          ELSE Panic("panic:LoadIntermediate") /\ mState' = mState
     ELSE pc' = "r_hack" /\ mode' = mode /\ mState' = mState
  /\ UNCHANGED <<durable, i, sg, mStore, csH, csR, csBlk, exRoot, hist>>
R_CompleteProp ==
  /\ Rec("r_completeProp") /\ prop' = [prop EXCEPT !.key = mState.h] /\ pc' = "r_completeSave"
  /\ UNCHANGED <<wal, signer, bs, desc, plug, inter, stkey, trie, rcpt, kvh, lastRcpt, appLast,
                 mode, i, sg, mStore, mState, csH, csR, csBlk, exRoot, hist>>
R_CompleteSave ==
  /\ Rec("r_completeSave") /\ stkey' = mState /\ pc' = "r_hack"              \* gldb.SetSync stateKey
  /\ UNCHANGED <<prop, wal, signer, bs, desc, plug, inter, trie, rcpt, kvh, lastRcpt, appLast,
                 mode, i, sg, mStore, mState, csH, csR, csBlk, exRoot, hist>>

\* NewBlockchainReactor: "store.height -= 1 // XXX HACK", then PanicSanity on mismatch
R_Hack ==
  /\ Rec("r_hack")
  /\ LET s == IF mState.h = mStore - 1 THEN mStore - 1 ELSE mStore IN
       /\ mStore' = s
       /\ IF mState.h # s THEN Panic("panic:state-store-height-mismatch") ELSE pc' = "r_cons" /\ mode' = mode
  /\ UNCHANGED <<durable, i, sg, mState, csH, csR, csBlk, exRoot, hist>>

\* NewConsensusState: updateToState, reconstructLastCommit (needs SC:state.h), OpenWAL (writes "#HEIGHT: 1" into an empty WAL)
R_Cons ==
  /\ Rec("r_cons")
  /\ csH' = mState.h + 1 /\ csR' = 0
  /\ IF mState.h > 0 /\ bs.SC[mState.h] = NoBlk
     THEN Panic("panic:reconstructLastCommit") /\ wal' = wal
     ELSE /\ pc' = "r_recover" /\ mode' = mode
          /\ wal' = IF wal.mark = 0 THEN WalAt(1) ELSE wal                    \* autofile.Write
  /\ UNCHANGED <<prop, signer, bs, desc, plug, inter, stkey, trie, rcpt, kvh, lastRcpt, appLast,
                 i, sg, mStore, mState, csBlk, exRoot, hist>>

\* Angine.RecoverFromCrash(info.LastBlockAppHash, info.LastBlockHeight), guards exactly as in the code.
\* After the reactor's adjustment mStore = mState.h always holds, so the branches that execute blocks or patch
\* the state are dead; they are kept as guards leading to mode "dead" and TLC proves they are unreachable.
R_Recover ==
  /\ Rec("r_recover")
  /\ LET store == mStore  app == IF appLast = NoApp THEN [h |-> 0, root |-> <<>>] ELSE appLast IN
     IF store = 0 THEN pc' = "r_appStart" /\ mode' = mode /\ mState' = mState
     ELSE IF store < app.h THEN Panic("panic:ErrAppBlockHeightTooHigh") /\ mState' = mState
     ELSE IF store = app.h THEN
            IF mState.root = app.root THEN pc' = "r_appStart" /\ mode' = mode /\ mState' = mState
            ELSE IF mState.root = bs.H[store].root
                 THEN IF InterFits(mState)     \* LoadIntermediate on the shared State object, cs not told
                      THEN mode' = "dead" /\ pc' = "dead:LoadIntermediate-after-assembly" /\ mState' = mState
                      ELSE Panic("panic:LoadIntermediate") /\ mState' = mState
                 ELSE Panic("panic:Unexpected-state.AppHash") /\ mState' = mState
     ELSE IF store = app.h + 1 /\ store = mState.h + 1
          THEN mode' = "dead" /\ pc' = "dead:replay-one-block" /\ mState' = mState
     ELSE IF store # mState.h
          THEN mode' = "dead" /\ pc' = "dead:store-state-differ" /\ mState' = mState
     ELSE \* replay app.h+1..store on a state that is already at store: every ApplyBlock fails validation
          \* (ignored), then the AppHash comparison decides
          IF mState.root = app.root THEN pc' = "r_appStart" /\ mode' = mode /\ mState' = mState
          ELSE Panic("panic:AppHash-after-replay") /\ mState' = mState
  /\ UNCHANGED <<durable, i, sg, mStore, csH, csR, csBlk, exRoot, hist>>

\* EVMApp.Start: writeGenesis when no lastblock record exists (trie batch, then lastblock{0})
R_AppStart ==
  /\ Rec("r_appStart")
  /\ IF appLast = NoApp THEN pc' = "r_genTrie" ELSE pc' = "r_walCheck"
  /\ UNCHANGED <<durable, mode, i, sg, mStore, mState, csH, csR, csBlk, exRoot, hist>>
R_GenTrie ==
  /\ Rec("r_genTrie") /\ trie' = trie \cup {<<>>} /\ pc' = "r_genLast"          \* ethdb.BatchWrite
  /\ UNCHANGED <<prop, wal, signer, bs, desc, plug, inter, stkey, rcpt, kvh, lastRcpt, appLast,
                 mode, i, sg, mStore, mState, csH, csR, csBlk, exRoot, hist>>
R_GenLast ==
  /\ Rec("r_genLast") /\ appLast' = [h |-> 0, root |-> <<>>] /\ pc' = "r_walCheck"   \* gldb.SetSync lastblock
  /\ UNCHANGED <<prop, wal, signer, bs, desc, plug, inter, stkey, trie, rcpt, kvh, lastRcpt,
                 mode, i, sg, mStore, mState, csH, csR, csBlk, exRoot, hist>>

\* ConsensusState.OnStart: "#HEIGHT: cs.Height" not in the WAL -> write it and the NewHeight step line
R_WalCheck ==
  /\ Rec("r_walCheck")
  /\ IF wal.mark < csH THEN wal' = WalAt(csH) /\ pc' = "r_walStep"              \* autofile.Write
                       ELSE wal' = wal /\ pc' = "r_replay"
  /\ UNCHANGED <<prop, signer, bs, desc, plug, inter, stkey, trie, rcpt, kvh, lastRcpt, appLast,
                 mode, i, sg, mStore, mState, csH, csR, csBlk, exRoot, hist>>
R_WalStep ==
  /\ Rec("r_walStep") /\ WalLine("NewHeight") /\ pc' = "r_replay"               \* autofile.Write
  /\ UNCHANGED <<prop, signer, bs, desc, plug, inter, stkey, trie, rcpt, kvh, lastRcpt, appLast,
                 mode, i, sg, mStore, mState, csH, csR, csBlk, exRoot, hist>>

\* catchupReplay(cs.Height): "#HEIGHT: cs.Height+1" present -> error, logged, nothing replayed ("let's go for
\* it anyways"); otherwise every line after the marker is handled again and the consensus state ends where the
\* last line leaves it.  Signatures already in the signer file are reused, missing ones are made.
Has(l) == l \in wal.lines
FullProposal == Has("Proposal") /\ wal.blk # NoBlk /\ wal.parts = wal.blk.np
R_Replay ==
  /\ Rec("r_replay")
  /\ mode' = "run"
  /\ IF wal.mark # csH
     THEN /\ csR' = 0 /\ csBlk' = NoBlk /\ pc' = "W_Timeout" /\ sg' = NoSg /\ ver' = ver /\ exRoot' = exRoot
     ELSE /\ csR' = wal.round
          /\ IF Has("StepCommit") THEN
                /\ csBlk' = wal.blk /\ sg' = NoSg /\ ver' = ver
                /\ exRoot' = Append(IF appLast = NoApp THEN <<>> ELSE appLast.root, csH)
                /\ IF ~BlockValid(wal.blk, mState) THEN pc' = "panic:finalizeCommit-invalid-block"
                   ELSE pc' = IF mStore < csH THEN "BsMeta" ELSE "Plugin"
             ELSE IF Has("Precommit") THEN
                csBlk' = wal.blk /\ pc' = "W_StepCommit" /\ sg' = NoSg /\ ver' = ver /\ exRoot' = exRoot
             ELSE IF Has("StepPrecommit") THEN
                csBlk' = wal.blk /\ pc' = "W_Precommit" /\ sg' = NoSg /\ ver' = ver /\ exRoot' = exRoot
             ELSE IF Has("Prevote") THEN
                /\ csBlk' = wal.blk /\ ver' = ver /\ exRoot' = exRoot
                /\ IF signer.h = csH /\ signer.r = wal.round /\ signer.s = 3 /\ signer.blk = wal.blk
                   THEN pc' = "W_StepPrecommit" /\ sg' = NoSg
                   ELSE pc' = "S_bak" /\ sg' = [s |-> 3, next |-> "W_StepPrecommit"]
             ELSE IF Has("StepPrevote") THEN
                csBlk' = wal.blk /\ pc' = "W_Prevote" /\ sg' = NoSg /\ ver' = ver /\ exRoot' = exRoot
             ELSE IF FullProposal THEN
                /\ csBlk' = wal.blk /\ ver' = ver /\ exRoot' = exRoot
                /\ IF signer.h = csH /\ signer.r = wal.round /\ signer.s = 2 /\ signer.blk = wal.blk
                   THEN pc' = "W_StepPrevote" /\ sg' = NoSg
                   ELSE pc' = "S_bak" /\ sg' = [s |-> 2, next |-> "W_StepPrevote"]
             ELSE IF signer.h = csH /\ signer.r = wal.round /\ signer.s >= 1 THEN
                \* a proposal was signed but is not (completely) in the WAL: nothing to propose this round
                csBlk' = NoBlk /\ pc' = "NilRound" /\ sg' = NoSg /\ ver' = ver /\ exRoot' = exRoot
             ELSE IF Has("Timeout") \/ wal.round > 0 THEN
                /\ pc' = "S_bak" /\ sg' = [s |-> 1, next |-> "W_StepPropose"] /\ exRoot' = exRoot
                /\ \E np \in 1..MaxParts :
                     csBlk' = [v |-> ver + 1, h |-> csH, root |-> mState.root, rh |-> mState.rh, np |-> np]
                /\ ver' = ver + 1
             ELSE csBlk' = NoBlk /\ pc' = "W_Timeout" /\ sg' = NoSg /\ ver' = ver /\ exRoot' = exRoot
  /\ UNCHANGED <<durable, i, mStore, mState, csH, crashes, readable>>

\* pc "panic:..." reached inside R_Replay is turned into mode "panic"
ReplayPanic ==
  /\ mode = "run" /\ pc = "panic:finalizeCommit-invalid-block" /\ mode' = "panic"
  /\ UNCHANGED <<durable, pc, i, sg, mStore, mState, csH, csR, csBlk, exRoot, hist>>

Recover == R_Load \/ R_GenProp \/ R_GenSave \/ R_Complete \/ R_CompleteProp \/ R_CompleteSave \/ R_Hack \/ R_Cons \/ R_Recover \/ R_AppStart
           \/ R_GenTrie \/ R_GenLast \/ R_WalCheck \/ R_WalStep \/ R_Replay \/ ReplayPanic

Round  == W_Timeout \/ S_bak \/ S_new \/ S_rename \/ W_StepPropose \/ W_Proposal \/ W_Part \/ W_StepPrevote
          \/ W_Prevote \/ W_StepPrecommit \/ W_Precommit \/ W_StepCommit \/ NilRound
Commit == BsMeta \/ BsPart \/ BsCommit \/ BsSeen \/ BsDesc \/ BsFlush \/ Plugin \/ StInterProp \/ StInter \/ Trie
          \/ Rcpt \/ KvHist \/ LastRcpt \/ AppLast \/ StSaveProp \/ StSave \/ W_Mark \/ W_NewHeight
Step   == Round \/ Commit \/ Recover \/ Finish
Next   == Step \/ Crash
Spec   == Init /\ [][Next]_vars /\ WF_vars(Step)

----------------------------------------------------------------------------
(* Properties *)

\* no PanicSanity / error branch of the restart path (or of the commit path after a restart) is reachable
RecoveryTerminates == mode # "panic"
\* the branches of RecoverFromCrash that mutate the State behind the consensus state's back are dead code
DeadBranchesDead == mode # "dead"

\* at every pause between two heights block store, state and application agree on one height and on the
\* hashes for it, in memory and on disk, and everything the blocks produced is stored exactly once
RecoveredConsistent ==
  Quiescent =>
    /\ desc = stkey.h /\ appLast.h = stkey.h /\ mStore = desc /\ mState = stkey /\ csH = stkey.h + 1
    /\ stkey.root = appLast.root /\ stkey.root = UpTo(stkey.h) /\ stkey.rh = stkey.h
    /\ stkey.vals = ValsAfter(stkey.h) /\ (stkey.h > 0 => stkey.lvals = ValsAfter(stkey.h - 1))
    /\ appLast.root \in trie
    /\ prop.key = stkey.h                 \* the stored proposer record belongs to the stored state
    /\ rcpt = 1..stkey.h
    /\ \A h \in 1..stkey.h : kvh[h] = IF h \in KvHeights THEN 1 ELSE 0

\* the application never executes a block on top of a state that already contains it, never skips one
AppliedExactlyOnce ==
  /\ appLast # NoApp => appLast.root = UpTo(appLast.h)
  /\ stkey # NoState => stkey.root = UpTo(Len(stkey.root))
  /\ \A h \in Heights : kvh[h] <= 1

\* every block that became visible (descriptor) stays readable, complete and unchanged; what a header records
\* (AppHash, ReceiptsHash of the previous height) is what re-executing the chain from genesis produces
NoBlockLost ==
  \A h \in 1..desc :
    /\ readable[h] # NoBlk
    /\ bs.H[h] = readable[h] /\ bs.SC[h] = readable[h]
    /\ bs.P[h] = [blk |-> readable[h], n |-> readable[h].np]
    /\ (h - 1) \in bs.C
    /\ readable[h].root = UpTo(h - 1) /\ readable[h].rh = h - 1

\* the node goes on to commit further blocks
Progress == <>(mode = "done")

TypeOK ==
  /\ mode \in {"rec", "run", "panic", "dead", "done"}
  /\ desc \in 0..(MaxH + 1) /\ crashes \in 0..MaxCrash
  /\ wal.mark \in 0..(MaxH + 1)
=============================================================================
