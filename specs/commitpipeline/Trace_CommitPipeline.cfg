SPECIFICATION TSpec
CONSTANTS
  MaxH = 40
  MaxCrash = 40
  MaxParts = 4
  MaxTrie = 4
  KvHeights <- TraceKv
  ValHeights <- TraceVal
  Legacy = FALSE
  KvIdem = TRUE
  SwapVals = FALSE
INVARIANTS RecoveryTerminates DeadBranchesDead RecoveredConsistent AppliedExactlyOnce NoBlockLost
CONSTRAINT HighWater
POSTCONDITION Accepted
CHECK_DEADLOCK FALSE
