------------------------- MODULE MC_CommitPipeline -------------------------
EXTENDS CommitPipeline
KvH2 == {2}
KvH12 == {1, 2}
NoKv == {}
Val2 == {2}
Val1 == {1}
Val12 == {1, 2}
Val23 == {2, 3}
\* volatile-free view is not used: every variable matters for recovery
=============================================================================
