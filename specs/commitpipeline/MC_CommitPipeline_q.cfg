SPECIFICATION Spec
CONSTANTS
  MaxH = 2
  MaxCrash = 2
  MaxParts = 2
  MaxTrie = 2
  KvHeights <- KvH2
  ValHeights <- Val12
  Legacy = FALSE
  KvIdem = TRUE
  SwapVals = FALSE
INVARIANTS TypeOK RecoveryTerminates DeadBranchesDead RecoveredConsistent AppliedExactlyOnce NoBlockLost
PROPERTIES Progress
CHECK_DEADLOCK FALSE
