--------------------------------- MODULE PartSet ---------------------------------
(* gemmill/types/part_set.go as implemented: a receiver that knows only the PartSetHeader         *)
(* (NewPartSetFromHeader) is offered parts by AddPart(part, verify = true).  The sender's side    *)
(* (NewPartSetFromData) is the Merkle tree of SimpleMerkle.tla over the genuine parts 0..total-1. *)
(*                                                                                                *)
(* An offered part is described by: the index it CLAIMS (any integer), the genuine part j whose   *)
(* bytes and proof it was made from, and the single-field mutation c applied to it.  It is the    *)
(* genuine part at its index iff  claimed = j /\ c = "none".  Whether the real proof check        *)
(* accepts it is not assumed but computed with the symbolic Merkle verifier.                      *)
EXTENDS MerkleOps

CONSTANT MaxParts     \* totals 1..MaxParts

Mutations == {"none",     \* untouched
              "bytes",    \* any change of Part.Bytes (flip, truncate, extend, empty)
              "otherbytes", \* the bytes of the genuine part (j+1) % total under the proof of part j
              "aunt",     \* one aunt hash replaced
              "extra",    \* one aunt inserted
              "missing",  \* one aunt dropped
              "noproof"}  \* all aunts dropped (the aunt-less proof; offered only where the genuine proof has aunts)
Headers == {"genuine",    \* the header of the sender's set: Total and the Merkle root of the genuine parts
            "emptyroot"}  \* a crafted header (a proposal may carry any): the right Total, Hash nil or zero-length.
                          \* NewPartSetFromData never produces it for >= 1 part: under it NO part is genuine.
Results == {"added", "dup", "errIndex", "errProof"}
None == <<>>

VARIABLES
  hdr,      \* which header the receiver was built from (NewPartSetFromHeader)
  total,    \* header.Total
  have,     \* {i : ps.parts[i] # nil}  (= partsBitArray)
  count,    \* ps.count
  content,  \* [0..total-1 -> None or <<j, c>>] what is stored at each index
  res       \* output only

pvars == <<hdr, total, have, count, content, res>>
pview == <<hdr, total, have, count, content>>

PInit ==
  /\ hdr \in Headers
  /\ total \in 1..MaxParts
  /\ have = {}
  /\ count = 0
  /\ content = [i \in 0..(total - 1) |-> None]
  /\ res = [op |-> "init"]

(* what the offered part hashes to, and its aunts, in a set of t parts.  For "aunt"/"extra"/"missing" the      *)
(* verdict must be the same for EVERY concrete choice of position and replacement hash (ClassesUniform).       *)
LeafOf(t, j, c) == IF c = "bytes" THEN Foreign ELSE IF c = "otherbytes" THEN Leaf((j + 1) % t) ELSE Leaf(j)
ProofsOf(t, j, c) ==
  LET au == ProofOf(j, t) U == Universe(t) IN
  CASE c \in {"none", "bytes"} -> {au}
    [] c = "otherbytes" -> IF t > 1 THEN {au} ELSE {}
    [] c = "aunt"    -> {[au EXCEPT ![x[1]] = x[2]] : x \in {y \in (1..Len(au)) \X U : y[2] # au[y[1]]}}
    [] c = "extra"   -> {SubSeq(au, 1, p) \o <<h>> \o SubSeq(au, p + 1, Len(au)) : p \in 0..Len(au), h \in U}
    [] c = "missing" -> {SubSeq(au, 1, p - 1) \o SubSeq(au, p + 1, Len(au)) : p \in 1..Len(au)}
    [] c = "noproof" -> IF Len(au) > 0 THEN {<<>>} ELSE {}

CanOffer(t, j, c) == j \in 0..(t - 1) /\ ProofsOf(t, j, c) # {}

(* part.Proof.Verify(part.Index, ps.total, part.Hash(), ps.Hash()) for one / every concretisation *)
(* ps.Hash(): the root the receiver compares with.  An empty []byte and nil are both the symbolic NilH. *)
RootFor(h, t) == IF h = "genuine" THEN RootOf(t) ELSE NilH

SomeAcceptH(h, t, i, j, c) == \E au \in ProofsOf(t, j, c) : Verify(i, t, LeafOf(t, j, c), au, RootFor(h, t))
AllAcceptH(h, t, i, j, c)  == \A au \in ProofsOf(t, j, c) : Verify(i, t, LeafOf(t, j, c), au, RootFor(h, t))
SomeAccept(t, i, j, c) == SomeAcceptH("genuine", t, i, j, c)
AllAccept(t, i, j, c)  == AllAcceptH("genuine", t, i, j, c)

Claimed == (0 - MaxParts - 1)..(MaxParts + 1)

(* the proof check of every offerable part, computed once (constant) *)
AcceptsH == [h \in Headers |-> [t \in 1..MaxParts |->
              [x \in Claimed \X (0..(t - 1)) \X Mutations |-> CanOffer(t, x[2], x[3]) /\ AllAcceptH(h, t, x[1], x[2], x[3])]]]
Accepts == AcceptsH["genuine"]

Offerable(j, c) == CanOffer(total, j, c)

(* reply of AddPart in program order *)
Result(i, j, c) ==
  IF i < 0 \/ i >= total THEN "errIndex"
  ELSE IF i \in have THEN "dup"                     \* (false, nil) whatever the content
  ELSE IF AcceptsH[hdr][total][<<i, j, c>>] THEN "added"
  ELSE "errProof"

AddPart(i, j, c, r) ==
  /\ Offerable(j, c)
  /\ r = Result(i, j, c)
  /\ res' = [op |-> "AddPart", i |-> i, j |-> j, c |-> c, r |-> r]
  /\ IF r = "added"
       THEN /\ have' = have \cup {i}
            /\ count' = count + 1
            /\ content' = [content EXCEPT ![i] = <<j, c>>]
            /\ UNCHANGED <<hdr, total>>
       ELSE UNCHANGED <<hdr, total, have, count, content>>

PNext == \E i \in Claimed, j \in 0..(MaxParts - 1), c \in Mutations, r \in Results :
            AddPart(i, j, c, r)

PSpec == PInit /\ [][PNext]_pvars

-----------------------------------------------------------------------------------
(* Properties (C17) *)

PTypeOK == /\ have \subseteq 0..(total - 1) /\ count \in 0..total

(* the verdict does not depend on which aunt / which replacement: a class is accepted by all or by none (constant) *)
ClassesUniform ==
  \A t \in 1..MaxParts : \A i \in Claimed, j \in 0..(t - 1), c \in Mutations :
     CanOffer(t, j, c) => (SomeAccept(t, i, j, c) <=> AllAccept(t, i, j, c))

(* the proof check alone (no index guard, no duplicate check) accepts exactly the genuine part (constant) *)
ProofCheckExact ==
  \A t \in 1..MaxParts : \A i \in Claimed, j \in 0..(t - 1), c \in Mutations :
     CanOffer(t, j, c) => (Accepts[t][<<i, j, c>>] <=> (i = j /\ c = "none"))

(* ... for every header; under the crafted empty-root header the proof check accepts nothing at all (constant) *)
ClassesUniformAllHeaders ==
  \A h \in Headers, t \in 1..MaxParts : \A i \in Claimed, j \in 0..(t - 1), c \in Mutations :
     CanOffer(t, j, c) => (SomeAcceptH(h, t, i, j, c) <=> AllAcceptH(h, t, i, j, c))
EmptyRootAcceptsNothing ==
  \A t \in 1..MaxParts : \A i \in Claimed, j \in 0..(t - 1), c \in Mutations :
     CanOffer(t, j, c) => ~SomeAcceptH("emptyroot", t, i, j, c)

(* a part is accepted if and only if it is the genuine part at its index for the receiver's header (and not there yet) *)
OnlyGenuineAccepted ==
  [][ res'.op = "AddPart" =>
        ( res'.r = "added" <=> ( hdr = "genuine" /\ res'.i = res'.j /\ res'.c = "none" /\ res'.i \notin have ) ) ]_pvars

(* a receiver built from the crafted header never holds a part and never completes *)
EmptyHeaderNeverFills == hdr # "genuine" => (have = {} /\ count = 0 /\ count # total)

(* ... so everything stored is genuine, counted once *)
StoredGenuine ==
  /\ \A i \in 0..(total - 1) : content[i] # None <=> i \in have
  /\ \A i \in have : content[i] = <<i, "none">>
  /\ count = Cardinality(have)

(* a rejected or duplicate part leaves the set exactly as it was *)
RejectLeavesSetUnchanged ==
  [][ (res'.op = "AddPart" /\ res'.r # "added") => UNCHANGED <<hdr, total, have, count, content>> ]_pvars

(* IsComplete() <=> every index holds its genuine part: the reader yields the original bytes *)
ReassemblyExact == (count = total) <=> (\A i \in 0..(total - 1) : content[i] = <<i, "none">>)

(* parts are never lost or replaced *)
Monotone == [][ have \subseteq have' /\ \A i \in have : content'[i] = content[i] ]_pvars
===================================================================================
