SPECIFICATION PSpec
CONSTANTS
  MaxParts = 6
VIEW pview
INVARIANTS PTypeOK ClassesUniform ProofCheckExact StoredGenuine ReassemblyExact
PROPERTIES OnlyGenuineAccepted RejectLeavesSetUnchanged Monotone
CHECK_DEADLOCK FALSE
