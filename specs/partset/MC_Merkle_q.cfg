SPECIFICATION MSpec
CONSTANTS
  MaxTotal = 7
INVARIANTS ProofComplete ProofSound EmptyRootNeverVerifies RootsDistinct WrongTotalStillSound
CHECK_DEADLOCK FALSE
