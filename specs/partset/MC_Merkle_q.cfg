SPECIFICATION MSpec
CONSTANTS
  MaxTotal = 7
INVARIANTS ProofComplete ProofSound RootsDistinct WrongTotalStillSound
CHECK_DEADLOCK FALSE
