SPECIFICATION PSpec
CONSTANTS
  MaxParts = 3
VIEW pview
INVARIANTS PTypeOK ClassesUniform ClassesUniformAllHeaders EmptyRootAcceptsNothing EmptyHeaderNeverFills ProofCheckExact StoredGenuine ReassemblyExact
PROPERTIES OnlyGenuineAccepted RejectLeavesSetUnchanged Monotone
CHECK_DEADLOCK FALSE
