------------------------------ MODULE MerkleOps --------------------------------
(* gemmill/modules/go-merkle/simple_tree.go as implemented, over a SYMBOLIC hash: every hash is a *)
(* string that spells out how it was computed, so two hashes are equal iff they were computed the  *)
(* same way (collision freedom and leaf/inner domain separation are the assumption).               *)
(*   leaf i            "L<i>"        Part.Hash() of the genuine part i                              *)
(*   foreign           "X"           hash of any byte string that is not a genuine part             *)
(*   inner             "(l,r)"       SimpleHashFromTwoHashes(l, r)                                   *)
(*   no result         ""            the nil that computeHashFromAunts returns                       *)
(* SimpleHashFromHashes / trailsFromHashables split n items into (n+1)/2 left and the rest right.  *)
EXTENDS Integers, Sequences, FiniteSets, TLC

NilH     == ""
Leaf(i)  == "L" \o ToString(i)
Foreign  == "X"
Node(l, r) == "(" \o l \o "," \o r \o ")"

(* SimpleHashFromHashes(hashes[lo .. lo+n-1]), n >= 1 *)
RECURSIVE Root(_, _)
Root(lo, n) == IF n = 1 THEN Leaf(lo)
               ELSE LET k == (n + 1) \div 2 IN Node(Root(lo, k), Root(lo + k, n - k))

(* trails[i].FlattenAunts(): from the leaf's sibling up to a child of the root *)
RECURSIVE Aunts(_, _, _)
Aunts(i, lo, n) ==
  IF n = 1 THEN <<>>
  ELSE LET k == (n + 1) \div 2
       IN IF i < lo + k THEN Append(Aunts(i, lo, k), Root(lo + k, n - k))
                        ELSE Append(Aunts(i, lo + k, n - k), Root(lo, k))

RootOf(n)     == IF n = 0 THEN NilH ELSE Root(0, n)     \* SimpleProofsFromHashables(nil) returns a nil root
ProofOf(i, n) == Aunts(i, 0, n)

(* computeHashFromAunts(index, total, leafHash, innerHashes) *)
RECURSIVE Compute(_, _, _, _)
Compute(idx, tot, leaf, au) ==
  IF idx < 0 \/ idx >= tot THEN NilH
  ELSE IF tot = 1 THEN (IF Len(au) # 0 THEN NilH ELSE leaf)
  ELSE IF Len(au) = 0 THEN NilH
  ELSE LET nl   == (tot + 1) \div 2
           last == au[Len(au)]
           rest == SubSeq(au, 1, Len(au) - 1)
       IN IF idx < nl
            THEN LET l == Compute(idx, nl, leaf, rest) IN IF l = NilH THEN NilH ELSE Node(l, last)
            ELSE LET r == Compute(idx - nl, tot - nl, leaf, rest) IN IF r = NilH THEN NilH ELSE Node(last, r)

(* SimpleProof.Verify(index, total, leafHash, rootHash) *)
Verify(idx, tot, leaf, au, root) ==
  LET c == Compute(idx, tot, leaf, au) IN c # NilH /\ c = root

(* every hash that occurs in the tree of n leaves, plus the foreign one *)
RECURSIVE Sub(_, _)
Sub(lo, k) == IF k = 1 THEN {Leaf(lo)}
              ELSE LET h == (k + 1) \div 2 IN {Root(lo, k)} \cup Sub(lo, h) \cup Sub(lo + h, k - h)
Universe(t) == Sub(0, t) \cup {Foreign}

===================================================================================
