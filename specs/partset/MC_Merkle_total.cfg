SPECIFICATION MSpec
CONSTANTS
  MaxTotal = 7
INVARIANTS ProofBindsTotal
CHECK_DEADLOCK FALSE
