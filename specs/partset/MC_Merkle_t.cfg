SPECIFICATION MSpec
CONSTANTS
  MaxTotal = 10
INVARIANTS ProofComplete ProofSound EmptyRootNeverVerifies RootsDistinct WrongTotalStillSound
CHECK_DEADLOCK FALSE
