SPECIFICATION MSpec
CONSTANTS
  MaxTotal = 10
INVARIANTS ProofComplete ProofSound RootsDistinct WrongTotalStillSound
CHECK_DEADLOCK FALSE
