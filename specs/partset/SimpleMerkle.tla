------------------------------ MODULE SimpleMerkle ------------------------------
(* Static check of the Merkle scheme of MerkleOps.tla (go-merkle/simple_tree.go over a symbolic hash): *)
(* one state per tree size, holding what the driver compares with the real tree.                       *)
EXTENDS MerkleOps

(* Static part: one state per tree size, holding what the driver compares with the real tree. *)
CONSTANT MaxTotal

VARIABLES
  n,          \* number of leaves
  root,       \* symbolic root
  proofs,     \* <<aunts of leaf 0, ..., aunts of leaf n-1>>
  confusions  \* {<<i, idx, t>>} : the genuine proof of leaf i also verifies against the same root as index idx
              \*                   of t leaves, <<idx, t>> # <<i, n>>

mvars == <<n, root, proofs, confusions>>

Idx(t)    == (0 - t - 1) .. (t + 1)
Totals(t) == 0 .. (t + 2)

(* single-field mutations of a genuine proof: one aunt replaced, one aunt dropped, one hash inserted *)
Mutants(au, U) ==
  {[au EXCEPT ![p] = h] : p \in 1..Len(au), h \in U}
    \cup {SubSeq(au, 1, p - 1) \o SubSeq(au, p + 1, Len(au)) : p \in 1..Len(au)}
    \cup {SubSeq(au, 1, p) \o <<h>> \o SubSeq(au, p + 1, Len(au)) : p \in 0..Len(au), h \in U}
Candidates(t) == UNION {{ProofOf(j, t)} \cup Mutants(ProofOf(j, t), Universe(t)) : j \in 0..(t - 1)}

MInit ==
  /\ n \in 1..MaxTotal
  /\ root = RootOf(n)
  /\ proofs = [i \in 1..n |-> ProofOf(i - 1, n)]
  /\ confusions = {<<i, idx, t>> \in (0..(n - 1)) \X Idx(n) \X Totals(n) :
                      <<idx, t>> # <<i, n>> /\ Verify(idx, t, Leaf(i), ProofOf(i, n), RootOf(n))}

MSpec == MInit /\ [][FALSE]_mvars

(* every generated proof verifies *)
ProofComplete == \A i \in 0..(n - 1) : Verify(i, n, Leaf(i), ProofOf(i, n), root)

(* under the genuine total nothing but the genuine (leaf, index, proof) verifies: over every index in   *)
(* [-n-1, n+1], every leaf hash of the tree and a foreign one, every genuine proof of any leaf and every *)
(* single-field mutation of one                                                                          *)
ProofSound ==
  \A idx \in Idx(n), lf \in {Leaf(j) : j \in 0..(n - 1)} \cup {Foreign}, au \in Candidates(n) :
     Verify(idx, n, lf, au, root) => (idx \in 0..(n - 1) /\ lf = Leaf(idx) /\ au = ProofOf(idx, n))

(* the root of n leaves is no root of another number of leaves, and is deterministic *)
RootsDistinct == \A t \in 1..(MaxTotal + 2) : t # n => RootOf(t) # root

(* a proof binds the total.  NOT satisfied by the scheme: the root does not commit to the number of      *)
(* leaves, so a genuine proof also verifies under every (index, total) that gives the same path shape    *)
(* (leaf 0 of 3 as leaf 0 of 4; leaf 2 of 3 as leaf 1 of 2).  Checked in MC_Merkle_total.cfg; `confusions` lists all instances and    *)
(* the driver requires the real code to show exactly these (KNOWN_FINDINGS key ProofBindsTotal).         *)
ProofBindsTotal == confusions = {}

(* against an EMPTY expected root (nil or zero-length: a crafted header) nothing verifies - in particular not a    *)
(* recomputation that failed (Compute = NilH) because the proof is structurally wrong for (index, total)            *)
EmptyRootNeverVerifies ==
  /\ \A idx \in Idx(n), lf \in {Leaf(j) : j \in 0..(n - 1)} \cup {Foreign}, au \in Candidates(n) \cup {<<>>} :
        ~Verify(idx, n, lf, au, NilH)
  /\ \A t \in Totals(n), idx \in Idx(n), lf \in {Leaf(j) : j \in 0..(n - 1)} \cup {Foreign},
        au \in {ProofOf(j, n) : j \in 0..(n - 1)} \cup {<<>>} : ~Verify(idx, t, lf, au, NilH)

(* even under a wrong total a genuine proof never vouches for another leaf hash than its own, *)
(* and never for a negative index or one >= the claimed total                               *)
WrongTotalStillSound ==
  \A t \in Totals(n), idx \in Idx(n), lf \in {Leaf(j) : j \in 0..(n - 1)} \cup {Foreign}, j \in 0..(n - 1) :
     Verify(idx, t, lf, ProofOf(j, n), root) => (lf = Leaf(j) /\ 0 <= idx /\ idx < t)
===================================================================================
