#!/bin/sh
cd "$(dirname "$0")/.."
for id in "$@"; do python3 tools/seeded.py verify $id | grep "^VERIFY"; done
