#!/bin/sh
# usage: tools/vd_batch.sh <id>:<check> ...   verify then detect each seeded change (isolated run via `vp run`)
cd "$(dirname "$0")/.."
for x in "$@"; do
  id=$(echo $x | cut -d: -f1); chk=$(echo $x | cut -d: -f2)
  python3 tools/seeded.py verify $id | grep "^VERIFY"
  python3 tools/seeded.py detect $id $chk
done
