#!/usr/bin/env python3
"""Regenerates /verif/MANIFEST.json from the table below (one place to edit, always schema-valid)."""
import json
import os
import subprocess

VERIF = os.path.dirname(os.path.dirname(os.path.abspath(__file__)))

CHECKS = {
    'C15': dict(
        engine='voteset',
        technique='TLA+ spec VoteSet.tla exhaustively model-checked with TLC; every edge of its state graph and simulated '
                  'behaviours replayed on the real types.VoteSet (model-based testing), state compared after each step',
        level=('model_checking',
               'TLC proves the accounting invariants (Sound, Complete, CountedOnce, Maj23Stable, ConflictReported, '
               'CommitVerifies) of VoteSet.tla for all vote streams over 1-4 validators with unequal powers; the real '
               'VoteSet is forced through every transition of the small graph and through random behaviours of the '
               'larger ones, with reply class, public queries and MakeCommit/VerifyCommit compared at each step.',
               'DESIGN.md §4 C15'),
        note='Trusted: TLC, the projection in harness/cmd/voteset, ed25519. Bounds: <=4 validators, 3 block ids + nil, '
             '2 peers; power sums far from int64 overflow; negative index handled under C08.'),
}

NOT_YET = 'not yet built: the specification for this property is planned in DESIGN.md §4 but no check is registered yet'
NOT_APPLICABLE = {
    'C18': 'codec round-trip/robustness/injectivity are statements about pure functions over byte strings; there is no '
           'state machine for TLC to explore (DESIGN.md §5)',
}

HOOK_COMMITS = ['289b2e1']


def main():
    props = [json.loads(l)['id'] for l in open(os.path.join(VERIF, 'properties.jsonl'))]
    checks = []
    for pid in props:
        c = CHECKS.get(pid)
        if not c:
            continue
        checks.append({
            'property_id': pid,
            'quick_cmd': './check %s --tier quick' % pid,
            'thorough_cmd': './check %s --tier thorough' % pid,
            'evidence_file': 'evidence/%s.json' % pid,
            'replay_cmd_template': './check %s --replay {path}' % pid,
            'engine': c['engine'],
            'level_claimed': {'category': c['level'][0], 'text': c['level'][1], 'design_ref': c['level'][2]},
            'level_note': c['note'],
            'technique': c['technique'],
        })
    na = []
    for pid in props:
        if pid not in CHECKS:
            na.append({'property_id': pid, 'reason': NOT_APPLICABLE.get(pid, NOT_YET)})
    m = {
        'version': 1,
        'setup_cmd': './setup.sh',
        'hooks': {
            'guard': 'verif',
            'enable': 'go build -tags verif (harness module replaces github.com/dappledger/AnnChain => /repo)',
            'baseline_off_cmd': 'cd /repo && GOFLAGS=-mod=mod GOPROXY=off GOSUMDB=off go test -json -vet=off -count=1 -timeout 25m ./...',
            'source_commits': HOOK_COMMITS,
            'add_only': True,
        },
        'engines': [],
        'checks': checks,
        'not_applicable': na,
        'notes': 'Model-based verification with explicit TLA+ specifications (specs/), TLC, and conformance bindings '
                 '(replay of TLC behaviours into the real code; validation of recorded traces). See DESIGN.md.',
    }
    eng = {}
    for pid, c in CHECKS.items():
        eng.setdefault(c['engine'], []).append(pid)
    for e, ps in sorted(eng.items()):
        m['engines'].append({'name': e, 'path': 'harness/cmd/%s + tools/engines' % e, 'serves_properties': sorted(ps),
                             'kind_free_text': 'TLC behaviours replayed on real code'})
    with open(os.path.join(VERIF, 'MANIFEST.json'), 'w') as f:
        json.dump(m, f, indent=1)
        f.write('\n')
    try:
        import jsonschema
        jsonschema.validate(m, json.load(open('/root/.vp/MANIFEST.schema.json')))
        print('MANIFEST.json valid,', len(checks), 'checks')
    except ImportError:
        print('MANIFEST.json written (jsonschema not available)')


if __name__ == '__main__':
    main()
