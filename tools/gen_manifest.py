#!/usr/bin/env python3
"""Regenerates /verif/MANIFEST.json from the table below (one place to edit, always schema-valid)."""
import json
import os
import subprocess

VERIF = os.path.dirname(os.path.dirname(os.path.abspath(__file__)))

CHECKS = {
    'C15': dict(
        engine='voteset',
        technique='TLA+ spec VoteSet.tla exhaustively model-checked with TLC; every edge of its state graph and simulated '
                  'behaviours replayed on the real types.VoteSet (model-based testing), state compared after each step; '
                  'TLA+ spec HeightVoteSet.tla (routing of votes to the sets of their round and type, catch-up rounds per peer) '
                  'model-checked and its simulated behaviours replayed on the real pbft.HeightVoteSet',
        level=('model_checking',
               'TLC proves the accounting invariants (Sound, Complete, CountedOnce, Maj23Stable, ConflictReported, '
               'CommitVerifies) of VoteSet.tla for all vote streams over 1-4 validators with unequal powers; the real '
               'VoteSet is forced through every transition of the small graph and through random behaviours of the '
               'larger ones, with reply class, public queries and MakeCommit/VerifyCommit compared at each step.',
               'DESIGN.md §4 C15'),
        note='Trusted: TLC, the projection in harness/cmd/voteset, ed25519. Bounds: <=4 validators, 3 block ids + nil, '
             '2 peers; power sums far from int64 overflow; negative index handled under C08.'),
}

TM_NOTE = ('Trusted: TLC, the TLA+ value parser, the projection in gemmill/consensus/pbft/verif_shim.go + harness/csim, '
           'ed25519. The reactor gossip layer is replaced by the scheduler; small scope (<=4 validators, rounds<=3 in '
           'exhaustive runs, heights<=3); sign-bytes injectivity assumed.')
CHECKS.update({
    'C01': dict(
        engine='csim',
        technique='TLA+ spec Tendermint.tla (pbft state machine as implemented, Byzantine adversary, crash/restart) model-checked '
                  'with TLC; TLC counterexamples-to-reachability and simulated behaviours replayed on real '
                  'pbft.ConsensusState nodes with full state comparison after every action; real block stores compared',
        level=('model_checking',
               'Agreement/LinearChain are TLC invariants of the transcribed state machine over all interleavings within the '
               'bounds (Byzantine budget 0-2 exhaustively, unbounded in simulation); conformance of the code to the spec is '
               'established by replaying every generated behaviour step by step on real nodes (WAL, signer file, LevelDB '
               'stores) and comparing ~20 state components per node per step; scripted schedules that once forked the real '
               'code are replayed as regressions.', 'DESIGN.md §4 C01, §9'),
        note=TM_NOTE),
    'C04': dict(
        engine='csim',
        technique='TLA+ spec Tendermint.tla with the locking rules evaluated at every vote emission (TLC invariants + action '
                  'properties); witness behaviours for lock/unlock/relock replayed on real nodes; executions of real '
                  'goroutines recorded by hooks and validated against the spec by TLC (trace validation)',
        level=('model_checking',
               'PrevoteRespectsLock / PrecommitOnlyWithOwnPolka / ProposeLockedBlock are checked inside the transcribed handlers, '
               'LockJustified and UnlockOnlyOnLaterPolka on every reachable state/transition; the real node must emit exactly '
               'the votes the guarded spec steps emit, both in replay (spec->code) and in trace validation (code->spec).',
               'DESIGN.md §4 C04, §9'),
        note=TM_NOTE),
    'C07': dict(
        engine='csim',
        technique='TLA+ spec Tendermint.tla with Crash/CrashTorn/Restart (Restart = fold of the handlers over the WAL); '
                  'behaviours with crashes at every position and torn last records replayed on real nodes (real WAL files '
                  'cut inside the last line, real catchupReplay); real OnStart+receiveRoutine probes on copied directories; '
                  'TLA+ spec WalGroup.tla (the log as a group of rotated files: write buffer, rotation, marker search, start '
                  'sequence) model-checked with TLC, every edge of its state graph and simulated behaviours replayed on the real '
                  'pbft.WAL / autofile.Group; WAL rotations injected into the crash behaviours on real nodes',
        level=('model_checking',
               'TLC checks ReplayRestoresVotes, NoEquivocationSent and Agreement with crashes and torn records; on the real node '
               'every restart is compared with the spec state and, independently, with the node\'s own pre-crash projection; '
               'a real Start() on a clone of the directory must agree with the stepped restart. WalGroup.tla proves that the '
               'file-group layer implements the abstract log (a start replays exactly the whole input records of the height '
               'under every history of buffered writes, rotations, crashes, torn records and restarts within the bounds) and '
               'the real WAL is forced through every transition of the small graph.', 'DESIGN.md §4 C07, §9, §9.4'),
        note=TM_NOTE + ' Process-crash model (no power-loss reordering of writes).'),
    'C12': dict(
        engine='csim',
        technique='TLA+ spec Tendermint.tla under partial synchrony and weak fairness: TLC checks the temporal property '
                  'EventuallyDecide and deadlock-freedom; adversarial prefixes replayed on real nodes followed by a fair drain '
                  'that must decide; executions of real goroutines (real receiveRoutine/ticker; also the REAL reactor stack: '
                  'ConsensusReactors on connected p2p switches, with a laggard, a silent validator and a restarted process) '
                  'recorded through hooks and validated against the spec by TLC (Trace_Tendermint.tla); Ticker.tla replayed on the '
                  'real timeoutTicker; PeerState.tla (the per-peer bookkeeping the gossip routines decide from) exhaustively '
                  'checked and replayed on the real PeerState',
        level=('model_checking',
               'Bounded liveness: TLC liveness checking on the small configurations (also with a crash); every spec-level wedge '
               'is replayed and drained on real nodes before it counts; full-stack real-goroutine runs must reach the target height and '
               'the recorded traces of all real-goroutine runs must be behaviours of the spec.', 'DESIGN.md §4 C12, §9'),
        note=TM_NOTE + ' Liveness is bounded (rounds/heights); a relayed real-goroutine run (harness relay instead of the reactors, no '
                       'VoteSetMaj23 exchange) carries no progress verdict - its trace is validated whether or not it reached the '
                       'target (DESIGN.md 9.6); a fault-free run of the full reactor stack that does not reach its height is '
                       'repeated twice with 2x and 4x the time and only three identical outcomes are a violation.'),
})

CHECKS.update({
    'C02': dict(
        engine='blockvalidity',
        technique='TLA+ spec BlockValidity.tla (abstract block/commit malformation space; ValidateBlock, ValidateBasic, VerifyCommit '
                  'transcribed from the code; a declarative definition of a valid block) exhaustively model-checked with TLC; every '
                  'block of the explored space concretised into a real types.Block with real signatures on a real chain state and '
                  'pushed through the real validation code (model-based testing), a sample proposed by a Byzantine proposer to '
                  'running pbft.ConsensusState nodes, and real committed chains checked height by height by an independent oracle; '
                  'fast-sync slice: an edge cover of the TLC state graph of FastSync.tla (a peer serving tampered blocks) replayed on '
                  'the real BlockchainReactor, every stored block and seen-commit compared with the source chain',
        level=('model_checking',
               'TLC proves, over all blocks with <=2 (3) simultaneous malformations and every combination of 11 commit-slot classes on '
               '3-4 validators with unequal powers, that the transcribed code logic accepts exactly the blocks the property-level '
               'definition allows (CodeEqualsDecl) and that acceptance implies right links/commitments and >2/3 power of distinct, '
               'correctly labelled and signed, same-height, single-round precommits for exactly the previous block. The real '
               'ValidateBlock / ValidateBasic / VerifyCommit return the predicted verdict on two concretisations of every block; '
               'honest nodes refuse sampled Byzantine proposals; every height of real chains re-verifies (links, DataHash, '
               'LastCommitHash, ValidatorsHash, SeenCommit(h), BlockCommit(h-1)).', 'DESIGN.md §4 C02'),
        note='Trusted: TLC, the concretisation in harness/cmd/blockvalidity/build.go, ed25519, hash collision freedom. Bounds: 3-4 '
             'validators, constant validator set, single-part blocks, one class per commit slot. Block time, proposer identity and '
             'Commit.BlockID are not part of the property (the code does not check them). Tendermint.tla commit invariants are bound under C01.'),
    'C08': dict(
        engine='peerinput',
        technique='TLA+ spec PeerInput.tla (an instance of Tendermint.tla with one honest validator): the complete state graph (one edge per '
                  'receiver situation x message class) is replayed on the real ConsensusReactor.Receive -> peerMsgQueue -> handleMsg path of a '
                  'real pbft.ConsensusState; plus bounded byte mutations, non-block proposals, poisoned-PeerState gossip runs and the '
                  'blockchain/mempool/PEX reactors',
        level=('model_checking',
               'Exhaustive over the finite product 10 receiver situations x every consensus message type x finite field classes (single '
               'deviations in quick, pairs in thorough). The spec decides Totality, InvalidLeavesStateUnchanged, AcceptOnlyValid, '
               'AcceptFollowsTendermint; every pair is concretised with real keys and go-wire and replayed on the real code; a panic on an '
               'un-recovered goroutine, a fatal allocation, a consensus-state change for a non-accepted message, or a node that no longer '
               'commits under honest traffic is a VIOLATION.', 'DESIGN.md §4 C08'),
        note='Partial with respect to "whatever bytes": structured inputs (field classes) are exhaustive within the stated scope; raw byte '
             'strings are covered only as bounded mutations of model-chosen encodings, the other reactors by a 51-class table. Sizes beyond '
             '2^40, more than 4 validators and deeper rounds are outside the scope.'),
})

CHECKS.update({
    'C06': dict(
        engine='crashnode',
        technique='TLA+ spec CommitPipeline.tla (every durable write of one commit in program order, Crash between any two and during '
                  'recovery, recovery transcribed branch by branch) model-checked exhaustively with TLC; fault enumeration on a real '
                  'single-validator node subprocess: the process is killed immediately before each durable write of each block kind (and '
                  'again during recovery), restarted, and compared via RPC, offline database reads and a re-execution of the whole chain on '
                  'a fresh node; the uncrashed durable-write log is validated against the spec with TLC (trace validation); raft '
                  'consensus mode: RaftMode.tla (FSM.Apply split at its durable writes, crash/restart, snapshot/InstallSnapshot, '
                  'leader loop) model-checked, edge-cover behaviours replayed on real raft-mode nodes with crashes parked at the '
                  'durable-write failpoints, and a live 3-node hashicorp/raft cluster judged on its recorded Apply events',
        level=('fault_enumeration',
               'Every one of the 35-36 durable writes issued while a block of each kind (EVM create/transfer, contract call, kv, validator '
               'change, empty) is decided and committed is a crash point on the real node binary; each is also combined with a second crash '
               'during the restart. After restart the node must commit 2 further blocks; store/state/app heights and hashes must agree; blocks '
               'readable before must be unchanged; every scripted transaction must be applied exactly once; re-executing the chain on a fresh '
               'node must reproduce every AppHash/ReceiptsHash/validators hash. TLC proves the same properties plus progress on the model for '
               '<=3 heights x <=3 crashes.', 'DESIGN.md §4 C06'),
        note='Trusted: TLC, the durable-write hook placement (go-db, ethdb, autofile, WriteFileAtomic), crashdrv readers. Bounds: one validator, '
             'pbft node enumeration plus the raft-mode slice (raft internals replaced by their contract to the FSM), process death only (no power loss), 5 block kinds, <=2 nested crashes; quick samples ~34 '
             'points, thorough runs all.'),
})

CHECKS.update({
    'C20': dict(
        engine='p2p',
        technique='TLA+ specs SecretConn.tla, MConn.tla, Admission.tla exhaustively model-checked with TLC; every edge of the SecretConn and '
                  'Admission state graphs plus simulated behaviours replayed on real SecretConnection pairs (real-crypto man in the middle), '
                  'real MConnection pairs and a real Switch assembled by prepareP2P/assembleStateMachine (model-based testing), outcome and '
                  'bytes compared after each step',
        level=('model_checking',
               'TLC proves StreamIntegrity, TamperDetected and PeerIdentityIsChallengeSigner (all MITM handshake strategies; <=4 frames, <=2 '
               'frame-level tamperings, write sizes {0,1,1023,1024,1025,3000} x read buffers {1,7,1024,4096}), PerChannelOrderAndIntegrity, '
               'OverCapacityIsError and Complete (2 channels, <=4 messages, sizes 0..capacity+1) and AdmissionSound/Complete for every attempt '
               'in every reachable validator-set, refuse-list and flag state. The real code is forced through every transition of the small '
               'graphs and random behaviours of the large ones, with delivered bytes, error classes, handshake identities, per-channel '
               'message sequences and admission outcomes compared, plus independent byte-stream and admission oracles.', 'DESIGN.md §4 C20'),
        note='Trusted: TLC, p2putil independent handshake implementation, nacl/ed25519. Crypto is symbolic in the spec. SecretConnection.Read '
             'does not latch errors; the consumer (MConnection, checked) ends the connection. MConn interleaving is compared through '
             'invariants on the real outcome. Timing-dependent failures are kept only if they recur in 12 isolated re-runs.'),
})

CHECKS.update({
    'C16': dict(
        engine='valset',
        technique='TLA+ spec ValSet.tla (weighted round-robin with both caches, Copy, Add/Update/Remove, State.Save/LoadState round trip) '
                  'exhaustively model-checked with TLC; every edge of the state graphs of four small configurations and simulated behaviours of '
                  'the larger ones replayed on the real types.ValidatorSet with state compared after each step, plus model-independent oracles '
                  '(batched==repeated, proportional windows, rebuilt-replica determinism, copy independence, real State.Save/LoadState)',
        level=('model_checking',
               'TLC proves Proportional (every window of TotalVotingPower selections of a set unchanged since construction gives each validator '
               'exactly its power), Bounded, CacheCoherent, CopyIndependent, RejectNoChange, ObserversPure and ReloadPreservesProposer for all '
               'sets over <=4 validators, powers <=3, batched increments <=3, two aliased copies and <=2 mutations; the real ValidatorSet is '
               'forced through every transition of the small graphs and through random behaviours, and IncrementAccum(k)=k x IncrementAccum(1), '
               'replica agreement on validators/hash/proposer and the real persistence round trip are checked at every step.', 'DESIGN.md §4 C16'),
        note='Trusted: TLC, the projection in harness/cmd/valset (hook verif_export_valset.go), ed25519/go-wire. Accums far from int64 overflow; '
             'empty sets excluded; exact proportionality only for sets unchanged since NewValidatorSet (the first windows after '
             'Add/Update/Remove are skewed by carried-over accums - TLC counterexample recorded in evidence assumptions).'),
    'C17': dict(
        engine='partset',
        technique='TLA+ specs MerkleOps/SimpleMerkle.tla (symbolic injective hash, the code\'s recursion) and PartSet.tla (AddPart over claimed '
                  'index x source part x mutation) exhaustively model-checked; every edge of the PartSet graphs replayed on the real '
                  'types.PartSet in all byte-level variants, the real tree required to equal the model\'s tree, and SimpleProof.Verify / '
                  'NewPartSetFromData / reassembly brute-forced on the real code; consensus slice: in the proposal-taking situations of '
                  'PeerInput.tla (TLC) the real ConsensusState gets a Byzantine same-header-other-body block, then +2/3 prevotes and precommits '
                  'for the genuine BlockID before any genuine part (driver peerinput): ProposalBlock must be the block decoded from the '
                  'complete voted part set; plus the Tendermint.tla directed schedule own_parts_after_commit_for_other followed by TLC and '
                  'replayed on real nodes (csim), proposal block / part-set projection compared after every action',
        level=('model_checking',
               'TLC proves ProofComplete and ProofSound (no leaf, index in [-n-1,n+1] or single-field proof mutation other than the genuine one '
               'verifies under the genuine total) for trees of 1-10 leaves, and OnlyGenuineAccepted, RejectLeavesSetUnchanged, StoredGenuine, '
               'ReassemblyExact for part sets of 1-7 parts over every claimed index in [-8,8] x source part x mutation class; the real PartSet '
               'follows every transition with result, held parts, count and reassembled bytes compared, and the real Verify agrees with the '
               'model\'s verdict on every (proof, leaf, index, total) tuple, including the predicted total confusions.', 'DESIGN.md §4 C17'),
        note='Trusted: TLC, symbolic-hash assumption (collision free, leaf/inner separated), harness/cmd/partset. Known finding ProofBindsTotal: '
             'the scheme does not bind the number of leaves (a proof verifies under other (index,total) with the same path shape, never for '
             'another leaf); callers take total and root from one signed header. Part size >=1.'),
    'C03': dict(
        engine='privval',
        technique='TLA+ spec PrivVal.tla (signBytesHRS checks, save, the three WriteFileAtomic sub-steps each ok/fail/crash, crash before return '
                  'and between calls, LoadPrivValidator) exhaustively model-checked; every edge of the small state graph, crash/fail/reload edges '
                  'of the larger one, simulated behaviours and seeded fault schedules replayed on a real PrivValidator with real key and files '
                  'through the verifhook failpoints, state compared at every failpoint, every released signature checked against the property',
        level=('model_checking',
               'TLC proves NoConflictingRelease, Monotone, DurableBeforeRelease, DiskMonotone, MemIsDisk for all request sequences over heights '
               '<=2, rounds <=2, 3 steps, 2 contents with <=2 crashes and <=2 failing writes at every sub-step; the real signer is driven through '
               'every transition of the small graph (crash = abandon the object at the failpoint + LoadPrivValidator) and for each released '
               'signature the file read back at that instant holds exactly its record, no earlier release conflicts, and none regresses.',
               'DESIGN.md §4 C03'),
        note='Trusted: TLC, harness/cmd/privval, verifhook failpoints (fail/crash immediately before each write), ed25519. Process-crash model '
             'only - WriteFileAtomic does not fsync, power-loss durability not claimed; a failing write leaves its target untouched.'),
})

CHECKS.update({
    'C14': dict(
        engine='adminop',
        technique='TLA+ spec AdminOp.tla (request machine, symbolic signature lists, sender/nonce binding, end-of-block application on replicas) '
                  'exhaustively model-checked with TLC (incl. every signature list up to length 3/4); graph edge covers and random walks replayed '
                  'on two real replicas (real Angine assembly, EVMApp, 0xfe precompile, AdminOp plugin, State.ApplyBlock/EndBlock); '
                  'requests reach the precompile through the Admin contract, by a direct transaction, or from a contract of the '
                  'submitter\'s making that STATICCALLs it; batches of several accepted changes in one block',
        level=('model_checking',
               'Authorisation by distinct current signers > 2/3, sender/nonce binding, replay / direct-call / query attempts and uniform '
               'next-set application are decided by TLC on the bounded spec and checked edge by edge against the real code: reply class, '
               'receipt status, nonces, membership/powers/height, Validators.Hash() and app hash across two replicas, plus model-independent '
               'oracles (distinct-signer authorisation, sender binding, duplicate raw transaction, queries stage nothing).', 'DESIGN.md §4 C14'),
        note='Bounded: 4 nodes, <=4 signature entries, <=4 requests, 2 replicas; cryptography symbolic in the spec; submitting accounts are EOAs; '
             'replicas execute in place as the fast-sync executer does.'),
    'C13': dict(
        engine='fastsync',
        technique='TLA+ spec FastSync.tla (pool height, requesters, peers, served-block classes incl. tampered commits, peer removal/timeouts, '
                  'switch to consensus) exhaustively model-checked with TLC (urgent and free-interleaving configurations); behaviours replayed on '
                  'a real fast-syncing Angine node (real BlockchainReactor, BlockPool, poolRoutine, verifier/executer closures) fed by scripted '
                  'peers over real Switches with real blocks and real or tampered commits across a validator-set change',
        level=('model_checking',
               'Only source blocks justified by +2/3 of the validator set in force are applied, the end state equals the live node\'s across a '
               'validator-set change, and nothing crashes, for every bounded mixture of honest and malicious peers, arrival order and removal; '
               'every stored block is byte-identical to the source block and State.Bytes(), validator sets, AppHash and LastBlockID equal the '
               'live node\'s at that height.', 'DESIGN.md §4 C13'),
        note='Bounded: chains of 3-4 blocks, one validator-set change, <=3 peers, <=2 tamperings; only schedules that can be forced on the real '
             'goroutines (environment moves at quiescence) are replayed, the free interleaving is model-checked only; timers fired programmatically.'),
})

CHECKS.update({
    'C11': dict(
        engine='statedb',
        technique='TLA+ specs Trie.tla and StateDB.tla model-checked with TLC; every edge of the Trie state graph, every path of length <=4 '
                  '(thorough 5) through it and simulated behaviours of larger configurations replayed on the real trie.Trie / SecureTrie / '
                  'state.StateDB; the same driver text runs on reference go-ethereum v1.8.27 in a second binary and the class->root tables are compared',
        level=('model_checking',
               'Root is a function of content over ALL bounded histories of the explored graph (about 1 M histories per quick run) under 6-20 '
               'key/value concretisations and equals the reference root; commit/reopen exact over three DB views; revert restores getters and '
               'root; proofs verify, are sound, and reject tampering.', 'DESIGN.md §4 C11'),
        note='Bounded: 3 keys exhaustive, 6 keys simulated, 2 accounts x 2 slots; deleteEmptyObjects fixed per run; one inherited API corner '
             'recorded as known finding (CreateAccount over an existing account is not persisted; reference behaves identically).'),
    'C10': dict(
        engine='evmframes',
        technique='TLA+ spec EVMFrames.tla generates programs plus expected outcomes under REF/ANN/APP semantics (TLC exhaustive over small '
                  'alphabets, -simulate over the full one); real bytecode executed on the in-tree vm.EVM and, in a second binary, on reference '
                  'go-ethereum v1.8.27 Constantinople with a three-way comparison of class, return data, logs and full state dump; plus '
                  'differential replay of generated opcode snippets (every byte value, boundary and random operands) on the same driver pair',
        level=('model_checking',
               'PARTIAL by design: frame, state, budget and dispatch semantics - snapshots/revert, static mode, depth limit 1025 bound exactly by '
               'a trampoline, return data, value transfer, CREATE/CREATE2 address/nonce/collision/deposit, SELFDESTRUCT, precompiles 1-8 and '
               '0xfe, shared per-transaction budget - conform to the reference except the two documented deviations; per-opcode arithmetic is '
               'compared only differentially.', 'DESIGN.md §4 C10, §5'),
        note='Per-opcode arithmetic, memory and gas numbers are only compared differentially, not specified; programs are straight-line per '
             'contract; three deviations recorded as known findings (deposit, nonce0, frontier-create).'),
})

CHECKS.update({
    'C05': dict(
        engine='evmapp',
        technique='TLA+ specs AppLifecycle.tla (persistent vs volatile EVMApp state, Execute/Commit/Restart/Query; reference F(chain)) and PlusCal '
                  'ParVerify.tla exhaustively model-checked by TLC; state-graph edge cover, simulated behaviours and counterexamples of pre-repair '
                  'variants replayed on the real EVMApp (LevelDB, Stop/NewEVMApp/Start) with a relational oracle across replicas (restart '
                  'placements, 1-16 verifier goroutines, forced Gate schedule, continuous vs catch-up)',
        level=('model_checking',
               'Bounded-exhaustive on the spec (<=3 blocks x <=2 txs, <=2 restarts; verifier 2-3 workers x 2-3 txs, every interleaving); the '
               'implementation is bound by replay of every graph edge plus sampled behaviours, and every replica with the same committed chain '
               'prefix must return byte-identical AppHash, ReceiptsHash, partition and Query answers.', 'DESIGN.md §4 C05'),
        note='Hashes are compared between real replicas, not predicted by the model; Go-scheduler interleavings of the verifier are sampled on '
             'the real code apart from the forced schedule; header-dependent contract code is compared only through NUMBER/TIMESTAMP.'),
    'C09': dict(
        engine='txexec',
        technique='TLA+ TxExec.tla over TxSem.tla (17 tx classes, per-tx Begin/ExecTx(t,r)/Commit) exhaustively model-checked by TLC; edge cover, '
                  'simulation, pre-repair counterexamples, forced verifier schedules and bounded byte-level mutants replayed through the real '
                  'OnExecute/OnCommit with model-independent oracles (nonce ledger, at-most-once, partition, twin-run AppHash, receipts, no panic)',
        level=('model_checking',
               'Bounded-exhaustive on the spec (2 accounts, nonces 0..2, 3 blocks x 3 txs); the implementation is bound by replay with per-tx '
               'classification and state comparison; totality over bytes = classes + bounded seeded mutations.', 'DESIGN.md §4 C09'),
        note='0xfe precompile driven with a stub callback; EVM opcode semantics are C10; arbitrary byte strings only as classes + bounded mutants.'),
    'C19': dict(
        engine='txpool',
        technique='TLA+ TxPool.tla (ethTxPool + txSortedMap + app nonce; commit path split into Update / SwapState / UpdateToState, evictor, '
                  'flush) and Mempool.tla exhaustively model-checked by TLC; edge cover of both state graphs plus simulation replayed on the real '
                  'ethTxPool with a real EVMApp behind it (interleavings forced through the OnCommit Gate) and on the real Mempool; properties '
                  're-evaluated on the real pool independently of the model; TLA+ spec CList.tla (the concurrent list under both pools: '
                  'removed elements keep their pointers, a reader moves by Next()) model-checked, every edge of its three state graphs '
                  'replayed on the real go-clist',
        level=('model_checking',
               'Bounded-exhaustive on the spec (1 account P=3; 2 accounts 1.47M states in thorough); the implementation is bound by replay of '
               'every edge of the smallest graph plus sampled behaviours; Reap order, duplicates, re-offers, loss below capacity and bounds '
               'are checked on the real pool.', 'DESIGN.md §4 C19'),
        note='One accepted residual (known finding reoffer:resubmitted-after-commit); Go map-order nondeterminism at the limits is tolerated by '
             'cutting the replay; eviction is tested with lifetime 0 on the real 1-minute ticker.'),
})

NOT_YET = 'not yet built: the specification for this property is planned in DESIGN.md §4 but no check is registered yet'
NOT_APPLICABLE = {
    'C18': 'codec round-trip/robustness/injectivity are statements about pure functions over byte strings; there is no '
           'state machine for TLC to explore (DESIGN.md §5)',
}

HOOK_COMMITS = []  # filled from `git -C /repo log --grep '^verif hook'` at generation time


def hook_commits():
    try:
        out = subprocess.run(['git', '-C', '/repo', 'log', '--format=%h', '--grep=^verif hook'], stdout=subprocess.PIPE, text=True).stdout
        return out.split()
    except Exception:
        return HOOK_COMMITS


def main():
    props = [json.loads(l)['id'] for l in open(os.path.join(VERIF, 'properties.jsonl'))]
    checks = []
    for pid in props:
        c = CHECKS.get(pid)
        if not c:
            continue
        checks.append({
            'property_id': pid,
            'quick_cmd': './check %s --tier quick' % pid,
            'thorough_cmd': './check %s --tier thorough' % pid,
            'evidence_file': 'evidence/%s.json' % pid,
            'replay_cmd_template': './check %s --replay {path}' % pid,
            'engine': c['engine'],
            'level_claimed': {'category': c['level'][0], 'text': c['level'][1], 'design_ref': c['level'][2]},
            'level_note': c['note'],
            'technique': c['technique'],
        })
    na = []
    for pid in props:
        if pid not in CHECKS:
            na.append({'property_id': pid, 'reason': NOT_APPLICABLE.get(pid, NOT_YET)})
    m = {
        'version': 1,
        'setup_cmd': './setup.sh',
        'hooks': {
            'guard': 'verif',
            'enable': 'go build -tags verif (harness module replaces github.com/dappledger/AnnChain => /repo)',
            'baseline_off_cmd': 'cd /repo && GOFLAGS=-mod=mod GOPROXY=off GOSUMDB=off go test -json -vet=off -count=1 -timeout 25m ./...',
            'source_commits': hook_commits(),
            'add_only': True,
        },
        'engines': [],
        'checks': checks,
        'not_applicable': na,
        'notes': 'Model-based verification with explicit TLA+ specifications (specs/), TLC, and conformance bindings '
                 '(replay of TLC behaviours into the real code; validation of recorded traces). See DESIGN.md.',
    }
    eng = {}
    for pid, c in CHECKS.items():
        eng.setdefault(c['engine'], []).append(pid)
    for e, ps in sorted(eng.items()):
        m['engines'].append({'name': e, 'path': 'harness/cmd/%s + tools/engines' % e, 'serves_properties': sorted(ps),
                             'kind_free_text': 'TLC behaviours replayed on real code'})
    with open(os.path.join(VERIF, 'MANIFEST.json'), 'w') as f:
        json.dump(m, f, indent=1)
        f.write('\n')
    try:
        import jsonschema
        jsonschema.validate(m, json.load(open('/root/.vp/MANIFEST.schema.json')))
        print('MANIFEST.json valid,', len(checks), 'checks')
    except ImportError:
        print('MANIFEST.json written (jsonschema not available)')


if __name__ == '__main__':
    main()
