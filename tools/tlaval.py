"""Parser for TLA+ values as printed by TLC (dot dumps, simulation files, error traces).

Values are converted to plain Python/JSON data:
  integers -> int, strings -> str, TRUE/FALSE -> bool, model values -> str
  sets {a,b}      -> sorted list (canonical order by json dump)
  tuples <<a,b>>  -> list
  records [k |-> v] and functions (k :> v @@ ...) -> dict with str keys (int keys -> "1")
"""
import json
import re

_tok = re.compile(r'''\s*(?:
    (?P<str>"(?:[^"\\]|\\.)*")
  | (?P<num>-?\d+)
  | (?P<op><<|>>|\|->|:>|@@|\.\.|[\[\]{}(),])
  | (?P<id>[A-Za-z_][A-Za-z0-9_!]*)
)''', re.X)


class ParseError(Exception):
    pass


def tokenize(s):
    pos = 0
    out = []
    n = len(s)
    while pos < n:
        m = _tok.match(s, pos)
        if not m:
            if s[pos:].strip() == '':
                break
            raise ParseError('bad token at %r' % s[pos:pos + 40])
        pos = m.end()
        if m.group('str') is not None:
            out.append(('str', json.loads(m.group('str').replace('\\\n', ''))))
        elif m.group('num') is not None:
            out.append(('num', int(m.group('num'))))
        elif m.group('op') is not None:
            out.append(('op', m.group('op')))
        else:
            out.append(('id', m.group('id')))
    return out


def _key(v):
    return json.dumps(v, sort_keys=True)


class _P:
    def __init__(self, toks):
        self.t = toks
        self.i = 0

    def peek(self):
        return self.t[self.i] if self.i < len(self.t) else (None, None)

    def next(self):
        tok = self.peek()
        self.i += 1
        return tok

    def expect(self, op):
        k, v = self.next()
        if k != 'op' or v != op:
            raise ParseError('expected %s got %r at %d' % (op, v, self.i))

    def value(self):
        k, v = self.next()
        if k == 'str':
            return v
        if k == 'num':
            nk, nv = self.peek()
            if nk == 'op' and nv == '..':
                self.next()
                _, hi = self.next()
                return list(range(v, hi + 1))
            return v
        if k == 'id':
            if v == 'TRUE':
                return True
            if v == 'FALSE':
                return False
            return v
        if k == 'op':
            if v == '{':
                items = self.seq('}')
                items.sort(key=_key)
                return items
            if v == '<<':
                return self.seq('>>')
            if v == '[':
                d = {}
                if self.peek() == ('op', ']'):
                    self.next()
                    return d
                while True:
                    kk, kv = self.next()
                    if kk not in ('id', 'str', 'num'):
                        raise ParseError('bad record key %r' % (kv,))
                    self.expect('|->')
                    d[str(kv)] = self.value()
                    k2, v2 = self.next()
                    if v2 == ']':
                        return d
                    if v2 != ',':
                        raise ParseError('expected , or ] got %r' % (v2,))
            if v == '(':
                d = {}
                while True:
                    key = self.value()
                    self.expect(':>')
                    d[key if isinstance(key, str) else _key(key)] = self.value()
                    k2, v2 = self.next()
                    if v2 == ')':
                        return d
                    if v2 != '@@':
                        raise ParseError('expected @@ or ) got %r' % (v2,))
        raise ParseError('unexpected token %r' % ((k, v),))

    def seq(self, close):
        items = []
        if self.peek() == ('op', close):
            self.next()
            return items
        while True:
            items.append(self.value())
            k, v = self.next()
            if v == close:
                return items
            if v != ',':
                raise ParseError('expected , or %s got %r' % (close, v))


def parse_value(s):
    p = _P(tokenize(s))
    v = p.value()
    if p.i != len(p.t):
        raise ParseError('trailing tokens in %r' % s[:80])
    return v


_conj = re.compile(r'^/\\ ([A-Za-z_][A-Za-z0-9_]*) = ', re.M)


def parse_state(text):
    """Parse a TLC state printed as a conjunction '/\\ var = value' (one or more lines each)."""
    text = text.strip()
    if not text.startswith('/\\'):
        # single-variable state: "var = value"
        m = re.match(r'([A-Za-z_][A-Za-z0-9_]*) = ', text)
        return {m.group(1): parse_value(text[m.end():])}
    ms = list(_conj.finditer(text))
    st = {}
    for j, m in enumerate(ms):
        end = ms[j + 1].start() if j + 1 < len(ms) else len(text)
        st[m.group(1)] = parse_value(text[m.end():end])
    return st


def parse_action_label(label):
    """'AddVote(1,"nil","ok","added")' -> ('AddVote', [1,'nil','ok','added'])."""
    label = label.strip()
    m = re.match(r'([A-Za-z_][A-Za-z0-9_]*)\s*(\((.*)\))?$', label, re.S)
    if not m:
        raise ParseError('bad action label %r' % label)
    if m.group(3) is None or m.group(3).strip() == '':
        return m.group(1), []
    return m.group(1), parse_value('<<' + m.group(3) + '>>')
