#!/bin/sh
# usage: tools/run_seq.sh <tier> Cxx ...   run checks one after the other, print verdict lines and wall time
cd "$(dirname "$0")/.."
tier=$1; shift
for c in "$@"; do
  s=$(date +%s)
  ./check $c --tier $tier ${SEED:+--seed $SEED} > /tmp/run_seq_$c.$$.log 2>&1; rc=$?
  e=$(date +%s)
  echo "== $c tier=$tier seed=${SEED:-1} rc=$rc wall=$((e-s))s"
  grep -E "^(VIOLATION|KNOWN-FINDING|INCONCLUSIVE|OK )" /tmp/run_seq_$c.$$.log | cut -c1-400
  grep -E "TLC " /tmp/run_seq_$c.$$.log | cut -c1-220
  rm -f /tmp/run_seq_$c.$$.log
done
