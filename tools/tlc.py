"""Run TLC on a spec directory in a scratch copy and parse its report, dumps and simulation output."""
import glob
import os
import re
import shutil
import subprocess
import tempfile
import time

from . import tlaval

JAR = '/opt/veriftools/tla/tla2tools.jar:/opt/veriftools/tla/CommunityModules-deps.jar'
VERIF = os.path.dirname(os.path.dirname(os.path.abspath(__file__)))


class TLCResult:
    def __init__(self):
        self.rc = None
        self.out = ''
        self.generated = 0
        self.distinct = 0
        self.depth = 0
        self.wall = 0.0
        self.ok = False            # "No error has been found"
        self.violation = None      # name of violated invariant / property, if any
        self.error = None          # any other error text (parse, eval, deadlock...)
        self.timeout = False
        self.trace = []            # counterexample: list of (action_label, state dict)
        self.scratch = None
        self.coverage = {}         # action name -> (distinct, total) when -coverage was used

    def summary(self):
        return {'generated': self.generated, 'distinct': self.distinct, 'depth': self.depth,
                'wall_s': round(self.wall, 2), 'ok': self.ok, 'violation': self.violation,
                'error': self.error, 'timeout': self.timeout}


def scratch_copy(spec_dirs, prefix='vtlc'):
    """Copy the given spec directories (flat) into a fresh scratch dir; returns its path."""
    d = tempfile.mkdtemp(prefix=prefix + '-')
    if isinstance(spec_dirs, str):
        spec_dirs = [spec_dirs]
    for sd in spec_dirs:
        for f in os.listdir(sd):
            p = os.path.join(sd, f)
            if os.path.isfile(p):
                shutil.copy(p, os.path.join(d, f))
    return d


_state_hdr = re.compile(r'^State (\d+): (.*)$')


def parse_error_trace(out):
    """Parse the counterexample printed by TLC (-tool off) into [(label, state)]."""
    trace = []
    lines = out.splitlines()
    i = 0
    while i < len(lines):
        m = _state_hdr.match(lines[i])
        if m:
            hdr = m.group(2).strip()
            label = 'Init' if hdr.startswith('<Initial') else hdr
            am = re.match(r'<([A-Za-z_0-9!]+)(\(.*\))? line', hdr)
            if am:
                label = am.group(1) + (am.group(2) or '')
            j = i + 1
            buf = []
            while j < len(lines) and lines[j].strip() != '' and not _state_hdr.match(lines[j]):
                buf.append(lines[j])
                j += 1
            try:
                trace.append((label, tlaval.parse_state('\n'.join(buf))))
            except Exception as e:  # keep raw text for diagnosis
                trace.append((label, {'_raw': '\n'.join(buf), '_err': str(e)}))
            i = j
        else:
            i += 1
    return trace


def run(spec_dirs, module, cfg, workers=8, timeout=600, extra=None, simulate=None, depth=None,
        seed=None, dump=False, keep=False, heap=None, coverage=False, deque=False):
    """Run TLC.  simulate: 'num=N' or 'file=F,num=N'.  Returns TLCResult (scratch kept if keep/dump)."""
    r = TLCResult()
    d = scratch_copy(spec_dirs)
    r.scratch = d
    cmd = ['java', '-XX:+UseParallelGC', '-Xss64m']
    cmd.append('-Xmx' + (heap or os.environ.get('VERIF_TLC_HEAP') or '8g'))
    if deque:
        cmd.append('-Dtlc2.tool.queue.IStateQueue=StateDeque')
    cmd += ['-cp', JAR, 'tlc2.TLC', '-workers', str(workers), '-metadir', os.path.join(d, 'meta'),
            '-config', cfg]
    if simulate:
        cmd += ['-simulate', simulate]
    if depth:
        cmd += ['-depth', str(depth)]
    if seed is not None:
        cmd += ['-seed', str(seed)]
    if dump:
        cmd += ['-dump', 'dot,actionlabels', os.path.join(d, 'graph.dot')]
    if coverage:
        cmd += ['-coverage', '1']
    if extra:
        cmd += list(extra)
    cmd.append(module)
    t0 = time.time()
    try:
        p = subprocess.run(cmd, cwd=d, stdout=subprocess.PIPE, stderr=subprocess.STDOUT,
                           timeout=timeout, text=True, errors='replace')
        r.rc = p.returncode
        r.out = p.stdout
    except subprocess.TimeoutExpired as e:
        r.timeout = True
        r.out = (e.stdout or b'').decode('utf8', 'replace') if isinstance(e.stdout, bytes) else (e.stdout or '')
        subprocess.run(['pkill', '-f', 'metadir ' + os.path.join(d, 'meta')], check=False)
    r.wall = time.time() - t0
    out = r.out
    m = None
    for m in re.finditer(r'(\d+) states generated, (\d+) distinct states found', out):
        pass
    if m:
        r.generated, r.distinct = int(m.group(1)), int(m.group(2))
    else:
        # simulation mode / progress lines
        for m in re.finditer(r'Progress\S*.*?([\d,]+) states (?:generated|checked)', out):
            pass
        if m:
            r.generated = int(m.group(1).replace(',', ''))
    m = re.search(r'depth of the complete state graph search is (\d+)', out)
    if m:
        r.depth = int(m.group(1))
    if 'No error has been found' in out or (simulate and r.rc == 0):
        r.ok = True
    m = re.search(r'Invariant (\S+) is violated', out)
    if m:
        r.violation = m.group(1)
    m = re.search(r'Action property (\S+) is violated', out) or m
    if m and not r.violation:
        r.violation = m.group(1)
    m2 = re.search(r'Postcondition (\S+) .*? is false', out, re.S)
    if m2 and not r.violation:
        r.violation = m2.group(1)
        r.ok = False
    if 'Temporal properties were violated' in out and not r.violation:
        r.violation = 'temporal'
    if 'Deadlock reached' in out and not r.violation:
        r.violation = 'deadlock'
    if not r.ok and not r.violation and not r.timeout:
        em = re.search(r'(Error:.*|\*\*\* Errors:.*|Parsing or semantic analysis failed.*)', out, re.S)
        r.error = (em.group(1) if em else out[-2000:])[:3000]
    if r.violation:
        r.trace = parse_error_trace(out)
    if coverage:
        for cm in re.finditer(r'^<(\w+) line .*?>: (\d+):(\d+)', out, re.M):
            r.coverage[cm.group(1)] = (int(cm.group(2)), int(cm.group(3)))
    if not (keep or dump or (simulate and 'file=' in simulate)):
        shutil.rmtree(d, ignore_errors=True)
        r.scratch = None
    return r


def cleanup(r):
    if r is not None and r.scratch:
        shutil.rmtree(r.scratch, ignore_errors=True)
        r.scratch = None


def sany(spec_dir, module):
    d = scratch_copy(spec_dir)
    try:
        p = subprocess.run(['java', '-cp', JAR, 'tla2sany.SANY', module], cwd=d, stdout=subprocess.PIPE,
                           stderr=subprocess.STDOUT, text=True, timeout=120)
        ok = p.returncode == 0 and 'Semantic errors' not in p.stdout and 'Parse Error' not in p.stdout \
            and '*** Errors' not in p.stdout and 'Fatal errors' not in p.stdout
        return ok, p.stdout
    finally:
        shutil.rmtree(d, ignore_errors=True)


# ---------------------------------------------------------------------------------------------
# state graph (dot dump)

_node = re.compile(r'^(-?\d+) \[label="(.*?)"(?:,style = filled)?(?:,tooltip=".*")?\];?$')
_edge = re.compile(r'^(-?\d+) -> (-?\d+) \[label="(.*?)",color=')


def _unesc(s):
    return s.replace('\\n', '\n').replace('\\"', '"').replace('\\\\', '\\')


class Graph:
    def __init__(self):
        self.states = {}     # id -> state dict
        self.init = []       # ids
        self.edges = []      # (src, action, args, dst)
        self.out = {}        # src -> [edge index]


def parse_dot(path, drop_vars=()):
    g = Graph()
    with open(path, encoding='utf8', errors='replace') as f:
        for line in f:
            line = line.rstrip('\n')
            if '->' in line[:45]:
                m = _edge.match(line)
                if m:
                    a, args = tlaval.parse_action_label(_unesc(m.group(3)))
                    g.edges.append((m.group(1), a, args, m.group(2)))
                    continue
            m = re.match(r'^(-?\d+) \[label="((?:[^"\\]|\\.)*)"(,style = filled)?', line)
            if m and m.group(1) not in g.states:
                st = tlaval.parse_state(_unesc(m.group(2)))
                for v in drop_vars:
                    st.pop(v, None)
                g.states[m.group(1)] = st
                if m.group(3):
                    g.init.append(m.group(1))
    for k, e in enumerate(g.edges):
        g.out.setdefault(e[0], []).append(k)
    return g


def edge_cover_paths(g, rng, max_len=40, max_paths=None, only=None):
    """Paths from an initial state that together cover every edge (or those for which only(e))."""
    from collections import deque
    # BFS tree for shortest prefixes
    parent = {}
    dq = deque()
    for i in g.init:
        parent[i] = None
        dq.append(i)
    while dq:
        s = dq.popleft()
        for k in g.out.get(s, []):
            t = g.edges[k][3]
            if t not in parent:
                parent[t] = k
                dq.append(t)

    def prefix(s):
        p = []
        while parent[s] is not None:
            k = parent[s]
            p.append(k)
            s = g.edges[k][0]
        p.reverse()
        return p

    want = [k for k, e in enumerate(g.edges) if e[0] in parent and (only is None or only(e))]
    rng.shuffle(want)
    covered = set()
    paths = []
    for k in want:
        if k in covered:
            continue
        path = prefix(g.edges[k][0]) + [k]
        for x in path:
            covered.add(x)
        cur = g.edges[k][3]
        while len(path) < max_len:
            cand = [x for x in g.out.get(cur, []) if x not in covered and (only is None or only(g.edges[x]))]
            if not cand:
                break
            x = rng.choice(cand)
            path.append(x)
            covered.add(x)
            cur = g.edges[x][3]
        paths.append(path)
        if max_paths and len(paths) >= max_paths:
            break
    return paths, len(covered), len(want)


def path_to_steps(g, path):
    steps = []
    for k in path:
        src, a, args, dst = g.edges[k]
        steps.append({'a': a, 'args': args, 'post': g.states[dst]})
    init = g.states[g.edges[path[0]][0]] if path else None
    if path:
        # walk back to the initial state of this path
        init = g.states[g.edges[path[0]][0]]
    return {'init': init, 'steps': steps}


# ---------------------------------------------------------------------------------------------
# simulation output (-simulate file=prefix,num=N writes prefix_<w>_<k>)

_sim_hdr = re.compile(r'^\\\* <?([A-Za-z_0-9!]+)(\(.*\))? line|^\\\* (Initial predicate|<Initial predicate>)')


def parse_sim_file(path, drop_vars=()):
    """Returns {'init': state, 'steps': [{'a','args','post'}]} from one simulation trace file."""
    with open(path, encoding='utf8', errors='replace') as f:
        text = f.read()
    chunks = re.split(r'^STATE_\d+ ==\s*$', text, flags=re.M)
    hdrs = chunks[0:1]
    states = []
    labels = []
    # chunk k (k>=1) is the state text followed by the *next* state's comment header
    for k in range(1, len(chunks)):
        body = chunks[k]
        # header for this state is at the end of the previous chunk
        prev = chunks[k - 1]
        hm = None
        for hm in re.finditer(r'^\\\* (.*)$', prev, re.M):
            pass
        labels.append(hm.group(1).strip() if hm else '')
        # strip trailing comment lines / module end
        body = re.split(r'^\\\* |^={4,}', body, flags=re.M)[0]
        st = tlaval.parse_state(body)
        for v in drop_vars:
            st.pop(v, None)
        states.append(st)
    steps = []
    for k in range(1, len(states)):
        lab = labels[k]
        am = re.match(r'<?([A-Za-z_0-9!]+)(\(.*\))? line', lab)
        if am:
            a, args = tlaval.parse_action_label(am.group(1) + (am.group(2) or ''))
        else:
            a, args = lab, []
        steps.append({'a': a, 'args': args, 'post': states[k]})
    return {'init': states[0] if states else None, 'steps': steps}


def simulate_traces(spec_dirs, module, cfg, num, depth, seed, timeout=600, drop_vars=(), extra=None):
    """Run tlc -simulate writing trace files; returns (TLCResult, [trace dicts])."""
    d_out = tempfile.mkdtemp(prefix='vsim-')
    r = run(spec_dirs, module, cfg, workers=1, timeout=timeout,
            simulate='file=%s,num=%d' % (os.path.join(d_out, 'sim'), num), depth=depth, seed=seed, extra=extra)
    traces = []
    for p in sorted(glob.glob(os.path.join(d_out, 'sim*'))):
        try:
            traces.append(parse_sim_file(p, drop_vars))
        except Exception as e:
            r.error = (r.error or '') + ' simparse:%s:%s' % (os.path.basename(p), e)
    shutil.rmtree(d_out, ignore_errors=True)
    cleanup(r)
    return r, traces
