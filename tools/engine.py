"""Shared machinery of every check: build the Go drivers from /repo's working tree, run TLC,
run drivers on traces, classify failures against KNOWN_FINDINGS.jsonl, write evidence and replays,
and turn the outcome into the exit code contract (0 held / 1 VIOLATION / 2 inconclusive)."""
import json
import os
import random
import re
import subprocess
import sys
import tempfile
import time

from . import tlc

VERIF = os.path.dirname(os.path.dirname(os.path.abspath(__file__)))
HARNESS = os.path.join(VERIF, 'harness')
# VERIF_REPO lets a developer point every check at a scratch worktree of the repository (mutation testing
# without touching /repo).  The registered commands never set it: they build from /repo itself.
REPO = os.path.abspath(os.environ.get('VERIF_REPO') or '/repo')
ALT = '' if REPO == '/repo' else '-' + re.sub(r'[^A-Za-z0-9]', '_', REPO)
BIN = 'bin' + ALT
GOENV = dict(os.environ, GOFLAGS='-mod=mod', GOPROXY='off', GOSUMDB='off', GOTOOLCHAIN='local')


def modfile_args(module_dir):
    """go build arguments selecting the go.mod that replaces AnnChain by REPO."""
    if not ALT:
        return []
    alt = os.path.join(module_dir, 'go.alt%s.mod' % ALT)
    src = open(os.path.join(module_dir, 'go.mod')).read().replace('=> /repo', '=> ' + REPO)
    if not os.path.exists(alt) or open(alt).read() != src:
        with open(alt, 'w') as f:
            f.write(src)
    try:
        with open(os.path.join(REPO, 'go.sum'), 'rb') as f, open(alt[:-4] + '.sum', 'wb') as g:
            g.write(f.read())
    except OSError:
        pass
    return ['-modfile=' + alt]


class Inconclusive(Exception):
    pass


class Ctx:
    def __init__(self, pid, tier, seed, level='model_checking'):
        self.pid = pid
        self.tier = tier
        self.seed = seed
        self.level = level
        self.t0 = time.time()
        self.rng = random.Random(seed)
        self.failures = []       # dicts: {key, property(bool), detail, replay(dict or None), engine}
        self.notes = []
        self.cov = {'states': 0, 'transitions': 0, 'traces_validated_against_impl': 0, 'samples': [],
                    'evaluations': 0, 'distinct_nontrivial': 0, 'rule': '', 'tlc_runs': [], 'exhaustive': False}
        self.assumptions = []
        self.inconclusive = []

    # ---- evidence helpers
    def add_tlc(self, name, r, exhaustive=True):
        self.cov['tlc_runs'].append(dict(r.summary(), name=name, exhaustive=exhaustive))
        self.cov['states'] += r.distinct if r.distinct else 0
        self.cov['transitions'] += r.generated
        if r.timeout:
            self.inconclusive.append('TLC timeout in %s' % name)
        elif r.error:
            self.inconclusive.append('TLC error in %s: %s' % (name, r.error[:400]))

    def sample(self, s, limit=5):
        if len(self.cov['samples']) < limit:
            self.cov['samples'].append(s)

    def log(self, *a):
        print('[%s %6.1fs]' % (self.pid, time.time() - self.t0), *a, flush=True)


def ensure_gosum():
    src = os.path.join(REPO, 'go.sum')
    dst = os.path.join(HARNESS, 'go.sum')
    try:
        with open(src, 'rb') as f:
            a = f.read()
        b = open(dst, 'rb').read() if os.path.exists(dst) else b''
        if not b.startswith(a):
            with open(dst, 'wb') as f:
                f.write(a)
    except OSError:
        pass


def build_go(ctx, names, tags='verif', module_dir=HARNESS):
    """(Re)build drivers cmd/<name> from /repo's current working tree.  Failure => inconclusive."""
    ensure_gosum()
    os.makedirs(os.path.join(module_dir, BIN), exist_ok=True)
    for n in names:
        t = time.time()
        p = subprocess.run(['go', 'build'] + modfile_args(module_dir) + ['-tags', tags, '-o', os.path.join(module_dir, BIN, n), './cmd/' + n],
                           cwd=module_dir, env=GOENV, stdout=subprocess.PIPE, stderr=subprocess.STDOUT, text=True)
        if p.returncode != 0:
            raise Inconclusive('go build %s failed:\n%s' % (n, p.stdout[-3000:]))
        ctx.log('built %s in %.1fs' % (n, time.time() - t))


def run_driver(ctx, name, traces, args=(), timeout=1800, module_dir=HARNESS, env=None, stdin_file=None):
    """Write traces to a temp file, run harness/bin/<name> <file> args..., return the parsed report."""
    fd, path = tempfile.mkstemp(prefix='vtr-%s-' % name, suffix='.json')
    with os.fdopen(fd, 'w') as f:
        for t in traces:
            f.write(json.dumps(t))
            f.write('\n')
    try:
        e = dict(GOENV)
        if env:
            e.update(env)
        p = subprocess.run([os.path.join(module_dir, BIN, name), path] + list(args), cwd=module_dir, env=e,
                           stdout=subprocess.PIPE, stderr=subprocess.PIPE, text=True, errors='replace', timeout=timeout)
    except subprocess.TimeoutExpired:
        raise Inconclusive('driver %s timed out after %ds' % (name, timeout))
    finally:
        os.unlink(path)
    if p.returncode != 0:
        raise Inconclusive('driver %s died rc=%d: %s' % (name, p.returncode, (p.stderr or p.stdout)[-3000:]))
    try:
        rep = json.loads(p.stdout.strip().splitlines()[-1])
    except Exception as ex:
        raise Inconclusive('driver %s: unreadable report (%s): %s' % (name, ex, p.stdout[-1000:]))
    return rep


def collect(ctx, rep, traces, engine, replay_args=()):
    """Turn driver failures into ctx.failures with the offending trace attached for replay."""
    for f in (rep.get('failures') or []):
        ti = f.get('trace', 0)
        tr = traces[ti] if 0 <= ti < len(traces) else None
        ctx.failures.append({'key': f.get('key') or f.get('kind'), 'property': bool(f.get('property')),
                             'kind': f.get('kind'), 'detail': f.get('detail', '')[:4000], 'action': f.get('action'),
                             'step': f.get('step'), 'want': f.get('want'), 'got': f.get('got'),
                             'engine': engine, 'replay': {'engine': engine, 'args': list(replay_args), 'trace': tr}})


def load_known(pid):
    out = []
    p = os.path.join(VERIF, 'KNOWN_FINDINGS.jsonl')
    if os.path.exists(p):
        for line in open(p):
            line = line.strip()
            if not line or line.startswith('#'):
                continue
            try:
                d = json.loads(line)
            except ValueError:
                continue
            if d.get('property') == pid and d.get('status', 'known') == 'known':
                out.append(d)
    return out


def match_known(known, failure):
    for k in known:
        key = k.get('key', '')
        if key and (failure['key'] == key or (k.get('regex') and re.search(k['regex'], failure['key'] or ''))):
            return k
    return None


def write_evidence(ctx, violations):
    cov = dict(ctx.cov)
    if not cov.get('rule'):
        cov.pop('rule')
    ev = {'property_id': ctx.pid, 'tier': ctx.tier, 'seed': ctx.seed, 'level': ctx.level, 'coverage': cov,
          'assumptions': ctx.assumptions, 'wall_s': round(time.time() - ctx.t0, 2), 'violations': violations}
    if ctx.notes:
        ev['notes'] = ctx.notes
    if ctx.inconclusive:
        ev['inconclusive'] = ctx.inconclusive
    if REPO != '/repo' or getattr(ctx, 'is_replay', False):
        # a development run against a scratch worktree (VERIF_REPO), or the replay of one stored behaviour: the evidence file
        # describes a whole check of /repo, keep these out of evidence/
        edir = os.path.join(VERIF, 'replays')
        os.makedirs(edir, exist_ok=True)
        with open(os.path.join(edir, 'evidence-%s-%s.json' % (ctx.pid, re.sub(r'[^A-Za-z0-9]', '_', REPO))), 'w') as f:
            json.dump(ev, f, indent=1, sort_keys=True)
        return
    os.makedirs(os.path.join(VERIF, 'evidence'), exist_ok=True)
    tmp = os.path.join(VERIF, 'evidence', ctx.pid + '.json.tmp')
    with open(tmp, 'w') as f:
        json.dump(ev, f, indent=1, sort_keys=True)
        f.write('\n')
    os.replace(tmp, os.path.join(VERIF, 'evidence', ctx.pid + '.json'))


def finish(ctx, reproduce=None):
    """Classify failures, write replays/evidence, print verdict lines, return exit code.

    reproduce(replay_dict) -> bool : re-runs one written replay on the real code; a failure that does not
    reproduce is inconclusive, never a violation."""
    known = load_known(ctx.pid)
    seen_known = {}
    new = []
    drift = []
    for f in ctx.failures:
        k = match_known(known, f)
        if k is not None:
            seen_known.setdefault(k['key'], (k, f))
        elif f['property']:
            new.append(f)
        else:
            drift.append(f)
    for key, (k, f) in sorted(seen_known.items()):
        print('KNOWN-FINDING: property=%s %s' % (ctx.pid, k.get('what', key)))
    rc = 0
    viol = 0
    os.makedirs(os.path.join(VERIF, 'replays'), exist_ok=True)
    reported = set()
    for f in new:
        if f['key'] in reported:
            continue
        reported.add(f['key'])
        path = os.path.join(VERIF, 'replays', '%s-%s-%d-%d.json' % (ctx.pid, ctx.tier, ctx.seed, len(reported)))
        with open(path, 'w') as fh:
            json.dump({'property': ctx.pid, 'failure': {k: v for k, v in f.items() if k != 'replay'},
                       'replay': f['replay']}, fh, indent=1)
        ok = True
        if reproduce is not None and f['replay'] and f['replay'].get('trace') is not None:
            try:
                ok = reproduce(f['replay'])
            except Inconclusive as e:
                ok = False
                ctx.inconclusive.append('replay failed to run: %s' % e)
        if ok:
            viol += 1
            print('VIOLATION property=%s replay=%s' % (ctx.pid, path))
            print('  key=%s action=%s step=%s\n  %s' % (f['key'], f.get('action'), f.get('step'), f['detail'][:1500]))
            if f.get('want') is not None or f.get('got') is not None:
                print('  want=%s\n  got=%s' % (json.dumps(f.get('want'))[:600], json.dumps(f.get('got'))[:600]))
            rc = 1
        else:
            ctx.inconclusive.append('failure %s did not reproduce from %s' % (f['key'], path))
        if len(reported) >= 5:
            break
    for f in drift[:3]:
        ctx.inconclusive.append('model/implementation drift on non-observable state: %s %s' % (f['key'], f['detail'][:300]))
    if rc == 0 and ctx.inconclusive:
        rc = 2
    write_evidence(ctx, viol)
    if rc == 2:
        for m in ctx.inconclusive[:10]:
            print('INCONCLUSIVE: %s' % m)
    if rc == 0:
        print('OK property=%s tier=%s seed=%d wall=%.1fs' % (ctx.pid, ctx.tier, ctx.seed, time.time() - ctx.t0))
    return rc


def tlc_check(ctx, spec_dirs, module, cfg, name=None, workers=None, timeout=900, **kw):
    """Exhaustive TLC run whose invariants must hold on the spec; a spec-level counterexample is returned
    (not a verdict about the code by itself)."""
    workers = workers or min(16, os.cpu_count() or 4)
    r = tlc.run(spec_dirs, module, cfg, workers=workers, timeout=timeout, **kw)
    ctx.add_tlc(name or cfg, r)
    ctx.log('TLC %s: %s' % (name or cfg, r.summary()))
    return r
