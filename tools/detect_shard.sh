#!/bin/sh
# usage: tools/detect_shard.sh <k> <n>   detect every seeded change whose index is k (mod n) with its own property's check
cd "$(dirname "$0")/.."
k=$1; n=$2; i=0
for d in $(ls -d seeded/C*-m* | sort); do
  id=$(basename $d); chk=$(echo $id | cut -d- -f1)
  if [ $((i % n)) -eq $k ]; then python3 tools/seeded.py detect $id $chk; fi
  i=$((i+1))
done
