#!/usr/bin/env python3
"""Run checks against the seeded changes kept under /verif/seeded/<id>/ (patch.diff, demo, meta.json).

  python3 tools/seeded.py verify <id>            apply in a scratch worktree, build, run the touched packages' tests,
                                                 run the demo with and without the change
  python3 tools/seeded.py detect <id> [Cxx ...]  run ./check Cxx (default: the property in meta.json) with
                                                 VERIF_REPO=<scratch worktree>; records exit code + VIOLATION line
  python3 tools/seeded.py matrix                 print the detection matrix recorded so far (seeded/results.json)

/repo itself is never modified: every run uses `git -C /repo worktree add` under /tmp and removes it afterwards."""
import json
import os
import re
import shutil
import subprocess
import sys
import time

VERIF = os.path.dirname(os.path.dirname(os.path.abspath(__file__)))
SEEDED = os.path.join(VERIF, 'seeded')
ENV = dict(os.environ, GOFLAGS='-mod=mod', GOPROXY='off', GOSUMDB='off', GOTOOLCHAIN='local')
RESULTS = os.path.join(SEEDED, 'results.json')


def sh(cmd, cwd=None, env=None, timeout=3600):
    p = subprocess.run(cmd, cwd=cwd, env=env or ENV, shell=isinstance(cmd, str), stdout=subprocess.PIPE,
                       stderr=subprocess.STDOUT, text=True, errors='replace', timeout=timeout)
    return p.returncode, p.stdout


def worktree(tag):
    d = '/tmp/seed-%s-%d' % (tag, os.getpid())
    sh(['git', '-C', '/repo', 'worktree', 'remove', '--force', d])
    rc, out = sh(['git', '-C', '/repo', 'worktree', 'add', '-q', '--detach', d, 'HEAD'])
    if rc != 0:
        raise SystemExit('worktree: ' + out)
    return d


def drop(d):
    sh(['git', '-C', '/repo', 'worktree', 'remove', '--force', d])
    shutil.rmtree(d, ignore_errors=True)
    tag = re.sub(r'[^A-Za-z0-9]', '_', d)
    for p in os.listdir(os.path.join(VERIF, 'harness')):
        if tag in p:
            q = os.path.join(VERIF, 'harness', p)
            shutil.rmtree(q, ignore_errors=True) if os.path.isdir(q) else os.unlink(q)
    for p in (os.listdir(os.path.join(VERIF, 'harness-ref')) if os.path.isdir(os.path.join(VERIF, 'harness-ref')) else []):
        if tag in p:
            q = os.path.join(VERIF, 'harness-ref', p)
            shutil.rmtree(q, ignore_errors=True) if os.path.isdir(q) else os.unlink(q)


def load(mid):
    d = os.path.join(SEEDED, mid)
    return d, json.load(open(os.path.join(d, 'meta.json')))


def touched_pkgs(patch):
    pk = set()
    for m in re.finditer(r'^\+\+\+ b/(\S+)', open(patch).read(), re.M):
        pk.add('./' + os.path.dirname(m.group(1)) + '/')
    return sorted(pk)


def save(mid, key, val):
    res = json.load(open(RESULTS)) if os.path.exists(RESULTS) else {}
    res.setdefault(mid, {})[key] = val
    with open(RESULTS, 'w') as f:
        json.dump(res, f, indent=1, sort_keys=True)


def verify(mid, full=False):
    d, meta = load(mid)
    patch = os.path.join(d, 'patch.diff')
    wt = worktree(mid)
    out = {}
    try:
        demo = meta.get('demo', {})
        demo_files = [f for f in os.listdir(d) if f.endswith('.go') or os.path.isdir(os.path.join(d, f))]

        def place():
            dst = os.path.join(wt, demo.get('copy_to', '.'))
            os.makedirs(dst, exist_ok=True)
            for f in demo_files:
                src = os.path.join(d, f)
                if os.path.isdir(src):
                    shutil.copytree(src, os.path.join(dst, f), dirs_exist_ok=True)
                else:
                    shutil.copy(src, dst)
        # demo without the change
        place()
        rc0, o0 = sh(demo['cmd'], cwd=os.path.join(wt, demo.get('cwd', '.')), timeout=1200)
        out['demo_without'] = {'rc': rc0, 'tail': o0[-600:]}
        rc, o = sh(['git', 'apply', patch], cwd=wt)
        out['applies'] = rc == 0
        if rc != 0:
            out['apply_err'] = o[-500:]
            return out
        rc1, o1 = sh(demo['cmd'], cwd=os.path.join(wt, demo.get('cwd', '.')), timeout=1200)
        out['demo_with'] = {'rc': rc1, 'tail': o1[-600:]}
        # remove demo files, then build + existing tests
        sh('git clean -fdq', cwd=wt)
        rc, o = sh('go build ./... && go build -tags verif ./...', cwd=wt, timeout=1800)
        out['builds'] = rc == 0
        if rc != 0:
            out['build_err'] = o[-800:]
        pk = ['./...'] if full else touched_pkgs(patch)
        rc, o = sh(['go', 'test', '-vet=off', '-count=1', '-timeout', '25m'] + pk, cwd=wt, timeout=3000)
        fails = [l for l in o.splitlines() if l.startswith('FAIL') or l.startswith('--- FAIL')]
        out['tests'] = {'pkgs': pk, 'rc': rc, 'fails': fails[:20]}
        out['ok'] = bool(out['applies'] and out['builds'] and rc0 == 0 and rc1 != 0)
        return out
    finally:
        drop(wt)
        save(mid, 'verify_full' if full else 'verify', out)


def detect(mid, checks, tier='quick', seed=1):
    d, meta = load(mid)
    patch = os.path.join(d, 'patch.diff')
    wt = worktree(mid)
    try:
        rc, o = sh(['git', 'apply', patch], cwd=wt)
        if rc != 0:
            print('patch does not apply:', o)
            return
        for c in checks or [meta['property']]:
            t = time.time()
            env = dict(ENV, VERIF_REPO=wt, VERIF_SEED=str(seed))
            ev = os.path.join(VERIF, 'evidence', c + '.json')
            keep = open(ev).read() if os.path.exists(ev) else None
            rc, o = sh([os.path.join(VERIF, 'check'), c, '--tier', tier, '--seed', str(seed)], cwd=VERIF, env=env, timeout=7200)
            if keep is not None:      # evidence must describe runs against /repo itself
                open(ev, 'w').write(keep)
            viol = [l for l in o.splitlines() if l.startswith('VIOLATION')]
            inc = [l for l in o.splitlines() if l.startswith('INCONCLUSIVE')]
            first = ''
            lines = o.splitlines()
            for i, l in enumerate(lines):
                if l.startswith('VIOLATION'):
                    first = ' | '.join(x.strip() for x in lines[i + 1:i + 3])[:400]
                    break
            r = {'rc': rc, 'violation': bool(viol), 'detail': first, 'inconclusive': inc[:2], 'wall_s': round(time.time() - t, 1),
                 'tier': tier, 'seed': seed}
            print(mid, c, json.dumps(r))
            save(mid, 'detect:' + c, r)
    finally:
        drop(wt)


def matrix():
    res = json.load(open(RESULTS)) if os.path.exists(RESULTS) else {}
    for mid in sorted(res):
        r = res[mid]
        det = {k[7:]: ('DETECTED' if v['violation'] else 'rc=%d' % v['rc']) for k, v in r.items() if k.startswith('detect:')}
        v = r.get('verify', {})
        print('%-10s verify=%s %s' % (mid, v.get('ok'), det))


if __name__ == '__main__':
    cmd = sys.argv[1]
    if cmd == 'verify':
        r = verify(sys.argv[2], full='--full' in sys.argv)
        print(json.dumps(r, indent=1))
        print('VERIFY %s %s' % (sys.argv[2], json.dumps({k: (v if not isinstance(v, dict) else {'rc': v.get('rc'), 'fails': v.get('fails')}) for k, v in r.items()})))
    elif cmd == 'detect':
        args = [a for a in sys.argv[3:] if not a.startswith('--')]
        tier = 'thorough' if '--thorough' in sys.argv else 'quick'
        detect(sys.argv[2], args, tier=tier)
    elif cmd == 'matrix':
        matrix()
