#!/usr/bin/env python3
"""Regenerates the generated sections of DESIGN.md (findings from KNOWN_FINDINGS.jsonl, detection matrix from
seeded/results.json + seeded/*/meta.json) between their markers."""
import json, os, re, glob
V = os.path.dirname(os.path.dirname(os.path.abspath(__file__)))


def findings():
    rows = []
    for line in open(os.path.join(V, 'KNOWN_FINDINGS.jsonl')):
        line = line.strip()
        if not line.startswith('{'):
            continue
        d = json.loads(line)
        what = re.sub(r'^fixed: property=\S+ \S+ ', '', d.get('what', ''))
        what = re.sub(r'^fixed \([^)]*\): property=\S+ ', '', what)
        rows.append((d['property'], d.get('status'), d.get('commit', '-'), d.get('key', ''), what.replace('|', '/')))
    rows.sort()
    out = ['| property | status | commit | failure key | what failed |', '|---|---|---|---|---|']
    for r in rows:
        out.append('| %s | %s | %s | `%s` | %s |' % (r[0], r[1], r[2], r[3], r[4][:600]))
    n_fixed = sum(1 for r in rows if r[1] == 'fixed')
    n_known = sum(1 for r in rows if r[1] == 'known')
    return '\n'.join(['%d genuine defects repaired by `fix:` commits, %d recorded as known findings.' % (n_fixed, n_known), ''] + out)


def matrix():
    p = os.path.join(V, 'seeded', 'results.json')
    res = json.load(open(p)) if os.path.exists(p) else {}
    out = ['| seeded change | breaks | what it needs to manifest | detected by | not detected by |', '|---|---|---|---|---|']
    for mp in sorted(glob.glob(os.path.join(V, 'seeded', '*', 'meta.json'))):
        mid = os.path.basename(os.path.dirname(mp))
        m = json.load(open(mp))
        r = res.get(mid, {})
        det = sorted(k[7:] + (' (thorough)' if v.get('tier') == 'thorough' else '') for k, v in r.items() if k.startswith('detect:') and v.get('violation'))
        miss = sorted(k[7:] + (' (exit %d%s)' % (v['rc'], ', thorough' if v.get('tier') == 'thorough' else '')) for k, v in r.items() if k.startswith('detect:') and not v.get('violation'))
        title = (m.get('title') or m.get('what_it_breaks') or '')[:160].replace('|', '/')
        needs = (m.get('needs_to_manifest') or '')[:220].replace('|', '/').replace('\n', ' ')
        out.append('| %s: %s | %s | %s | %s | %s |' % (mid, title, m.get('property', ''), needs, ', '.join(det) or '-', ', '.join(miss) or '-'))
    return '\n'.join(out)


def put(s, tag, body):
    b, e = '<!-- %s:BEGIN -->' % tag, '<!-- %s:END -->' % tag
    if b not in s:
        return s + '\n' + b + '\n' + body + '\n' + e + '\n'
    return s[:s.index(b) + len(b)] + '\n' + body + '\n' + s[s.index(e):]


p = os.path.join(V, 'DESIGN.md')
s = open(p).read()
if '## 10. Genuine defects found' not in s:
    s += '\n## 10. Genuine defects found on the unchanged tree (generated from KNOWN_FINDINGS.jsonl)\n\n'
    s = put(s, 'FINDINGS', '')
    s += '\n## 11. Seeded changes and which checks detect them (generated from seeded/)\n\nEach change was produced by an independent agent that saw only the property text; it compiles, passes the existing tests of the touched packages, and comes with a demonstration that fails with the change and passes without (seeded/<id>/). Detection = `./check Cxx` run with VERIF_REPO pointing at a scratch worktree carrying the change (tools/seeded.py detect), quick tier unless noted.\n\n'
    s = put(s, 'MATRIX', '')
s = put(s, 'FINDINGS', findings())
s = put(s, 'MATRIX', matrix())
open(p, 'w').write(s)
print('DESIGN.md tables regenerated')
