#!/usr/bin/env python3
"""Update the detect entries of /verif/seeded/results.json from the logs of the isolated detection runs (vp run), oldest first."""
import glob, json, os, re
base = '/verif/seeded/results.json'
res = json.load(open(base)) if os.path.exists(base) else {}
# entries already recorded are kept (logs of earlier sessions are gone after a restore); newer logs override them
logs = sorted(glob.glob('/root/.vp/runs/*/log'), key=lambda p: int(re.search(r'runs/(\d+)/', p).group(1)))
for p in logs:
    n = int(re.search(r'runs/(\d+)/', p).group(1))
    for line in open(p, errors='replace'):
        mv = re.match(r'^VERIFY (C\d\d-m\d) (\{.*\})\s*$', line)
        if mv:
            try:
                res.setdefault(mv.group(1), {})['verify'] = json.loads(mv.group(2))
            except ValueError:
                pass
            continue
        m = re.match(r'^(C\d\d-m\d) (C\d\d) (\{.*\})\s*$', line)
        if m:
            try:
                r = json.loads(m.group(3))
            except ValueError:
                continue
            r['run'] = n
            res.setdefault(m.group(1), {})['detect:' + m.group(2)] = r
json.dump(res, open(base, 'w'), indent=1, sort_keys=True)
for k in sorted(res):
    det = {x[7:]: ('DETECTED' if y['violation'] else 'missed rc=%d' % y['rc']) for x, y in res[k].items() if x.startswith('detect:')}
    print('%-8s verify=%s %s' % (k, res[k].get('verify', {}).get('ok'), det))
