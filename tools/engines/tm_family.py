"""Common run loop of the consensus checks: exhaustive TLC configurations, witness behaviours for reachability
goals, simulated behaviours, all replayed on real pbft.ConsensusState nodes (csim)."""
import copy

from .. import engine
from . import tm_common as tm


class Plan:
    def __init__(self):
        self.exhaustive = []      # [(Cfg, [witness goals])]
        self.sims = []            # [(Cfg, num, depth)]
        self.live = []            # [Cfg] checked with LiveSpec / temporal properties (no replay)
        self.drain = None         # (max_rounds) append a fair drain on the real nodes to every behaviour
        self.probe_real_start = 0 # number of RealStartProbe pseudo steps inserted per behaviour
        self.assumptions = []
        self.rule_extra = ''
        self.env = {}             # extra environment for the driver (oracle switches)
        self.extra_tlc = []       # [(spec dir, module, cfg, expected violation or None)] additional small specs
        self.scenarios = []       # names in tm_scenarios.ALL: directed schedules followed by TLC and replayed
        self.ticker = False       # replay the state graph of Ticker.tla on the real timeoutTicker
        self.rotate_wal = 0       # number of random RotateWAL pseudo steps per behaviour (plus one before most crashes)
        self.live_runs = []       # [(Cfg, heights, runs)] real-goroutine executions recorded and validated by TLC


def add_pseudo(ctx, traces, plan):
    for t in traces:
        if not t['steps']:
            continue
        cfg = t['cfg']
        honest = [i for i in range(1, len(cfg['Power']) + 1) if i not in cfg['Byz']]
        if plan.probe_real_start:
            for _ in range(plan.probe_real_start):
                k = ctx.rng.randrange(len(t['steps']))
                n = ctx.rng.choice(honest)
                nd = t['steps'][k]['post']['node']
                rec = nd[str(n)] if isinstance(nd, dict) else nd[honest.index(n)] if len(nd) == len(honest) else None
                if rec is None:
                    continue
                t['steps'].insert(k + 1, {'a': 'RealStartProbe', 'args': [n], 'post': t['steps'][k]['post']})
        if getattr(plan, 'rotate_wal', 0):
            # the WAL's head file is rotated away (autofile size check) a few inputs before a crash of that node, and at
            # random other points: invisible to the specification, so the expected state is the one of the step before
            crash_at = [(k, st['args'][0]) for k, st in enumerate(t['steps']) if st['a'] in ('Crash', 'CrashTorn')]
            ins = []
            for k, n in crash_at:
                if ctx.rng.random() < 0.7:
                    ins.append((ctx.rng.randrange(max(0, k - 8), k + 1), n))
            for _ in range(plan.rotate_wal):
                ins.append((ctx.rng.randrange(len(t['steps'])), ctx.rng.choice(honest)))
            for k, n in sorted(ins, reverse=True):
                if k == 0:
                    continue
                t['steps'].insert(k, {'a': 'RotateWAL', 'args': [n], 'post': t['steps'][k - 1]['post']})
        if plan.drain:
            t['steps'].append({'a': 'Drain', 'args': [cfg['MaxHeight'], plan.drain], 'post': t['steps'][-1]['post']})


def run_live(ctx, plan):
    """Record executions of real goroutines (real receiveRoutine + timeoutTicker, relayed messages) and let TLC decide
    whether each is a behaviour of Tendermint.tla (Trace_Tendermint.tla)."""
    import json, os, subprocess, tempfile, shutil
    total = accepted = events = 0
    for cfg, heights, runs in plan.live_runs:
        for k in range(runs):
            seed = ctx.seed * 1000 + k
            d = tempfile.mkdtemp(prefix='vlive-')
            try:
                cj = os.path.join(d, 'cfg.json')
                out = os.path.join(d, 'trace.ndjson')
                stack = bool(getattr(cfg, 'stack', False))

                def attempt(limit_ms):
                    with open(cj, 'w') as f:
                        json.dump({'Power': cfg.power, 'Byz': cfg.byz, 'MaxRound': cfg.max_round, 'Heights': heights,
                                   'Seed': seed, 'LimitMs': limit_ms, 'ByzActive': bool(getattr(cfg, 'byz_active', False)),
                                   'Scale': getattr(cfg, 'scale', 0), 'Stack': stack,
                                   'Laggard': getattr(cfg, 'laggard', 0), 'LagUntil': getattr(cfg, 'lag_until', 0),
                                   'StopNode': getattr(cfg, 'stop_node', 0), 'RestartNode': getattr(cfg, 'restart_node', 0)}, f)
                    return subprocess.run([os.path.join(engine.HARNESS, engine.BIN, 'csim'), 'live', cj, out],
                                          stdout=subprocess.PIPE, stderr=subprocess.PIPE, text=True, errors='replace',
                                          timeout=limit_ms / 1000 + 240, env=engine.GOENV)

                # A fault-free run of the real stack (all validators honest or absent ones below 1/3, reliable pipes) must
                # commit: that IS the property (C12). A run that does not is repeated twice with 2x and 4x the time
                # (20x..80x the normal duration); only the unanimous outcome is a verdict.
                limits = [60000, 120000, 240000] if stack else [60000]
                if not stack and os.environ.get('VERIF_LIVE_LIMIT_MS'):   # (to exercise the target-not-reached path)
                    limits = [int(os.environ['VERIF_LIVE_LIMIT_MS'])]
                p = res = None
                outcomes = []
                for lm in limits:
                    p = attempt(lm)
                    if p.returncode != 0:
                        outcomes.append('died: ' + (p.stderr or '')[-1500:])
                        res = None
                        continue
                    res = json.loads(p.stdout.strip().splitlines()[-1])
                    if res.get('error'):
                        outcomes.append('no progress: ' + res['error'])
                        continue
                    break
                if len(outcomes) > 0:
                    ctx.cov['live_retries'] = ctx.cov.get('live_retries', 0) + len(outcomes)
                if stack and len(outcomes) == len(limits):
                    kinds = set(o.split(':')[0] for o in outcomes)
                    if kinds == {'no progress'} or (kinds == {'died'} and all('panic' in o for o in outcomes)):
                        kind = 'no-progress' if kinds == {'no progress'} else 'panic'
                        total += 1
                        ctx.failures.append({'key': 'live-stack:%s:%s' % (kind, cfg.name), 'property': True, 'kind': 'liveness',
                                             'detail': 'real reactors on real switches (%s, no message touched by the harness): %d of %d '
                                                       'attempts with limits %s ms ended the same way: %s'
                                                       % (cfg.name, len(outcomes), len(limits), limits, outcomes[-1][-1200:]),
                                             'engine': 'csim-live', 'replay': None})
                    else:
                        ctx.inconclusive.append('full-stack run %s: mixed outcomes %s' % (cfg.name, [o[:80] for o in outcomes]))
                    continue
                if p.returncode != 0:
                    ctx.inconclusive.append('csim live died: ' + (p.stderr or '')[-500:])
                    continue
                total += 1
                if res.get('agreement'):
                    ctx.failures.append({'key': 'Agreement', 'property': True, 'kind': 'property', 'detail': res['agreement'],
                                         'engine': 'csim-live', 'replay': None})
                if res.get('error'):
                    # A relayed run (not the real reactor stack) that misses its target is no verdict about C12 and no
                    # reason to distrust the run either: the relay has no VoteSetMaj23 exchange, so an equivocating
                    # validator can keep a node from ever counting the precommits the others committed with (the real
                    # reactors settle that, and the full-stack runs above carry the progress verdict). What was recorded
                    # is still an execution of the real goroutines: it is validated like any other.
                    ctx.cov.setdefault('live_relay_runs_target_not_reached', []).append(
                        {'cfg': cfg.name, 'seed': seed, 'heights': res.get('heights'), 'events': res.get('events')})
                lines = open(out).read().splitlines()
                # the model explores rounds 0..MaxRound only: validate the prefix that stays inside
                for i, ln in enumerate(lines):
                    rec = json.loads(ln)
                    if rec['post']['r'] >= cfg.max_round or rec.get('m', {}).get('r', 0) >= cfg.max_round:
                        lines = lines[:i]
                        ctx.cov['live_traces_cut_at_round_bound'] = ctx.cov.get('live_traces_cut_at_round_bound', 0) + 1
                        break
                with open(out, 'w') as f:
                    f.write('\n'.join(lines) + ('\n' if lines else ''))
                events += len(lines)
                if getattr(cfg, 'stack', False):
                    ctx.cov['live_stack_traces'] = ctx.cov.get('live_stack_traces', 0) + 1
                    ctx.cov['live_stack_relayed_votes'] = ctx.cov.get('live_stack_relayed_votes', 0) + sum(
                        1 for ln in lines for rec in [json.loads(ln)]
                        if rec['a'] == 'Peer' and rec['m'].get('t') == 'V' and rec.get('pk') != rec['m'].get('by'))
                r = tm.validate_trace(ctx, cfg, out)
                ctx.cov['tlc_runs'].append(dict(r.summary(), name='Trace/%s/%d' % (cfg.name, seed), exhaustive=False))
                if r.ok and not r.violation:
                    accepted += 1
                    if k == 0 and len(lines) > 10:
                        # binding self-test of the trace spec: one corrupted logged field must be rejected
                        rec = json.loads(lines[len(lines) // 2])
                        rec['post']['st'] = 8 if rec['post']['st'] != 8 else 2
                        bad = os.path.join(d, 'bad.ndjson')
                        with open(bad, 'w') as f:
                            f.write('\n'.join(lines[:len(lines) // 2] + [json.dumps(rec)] + lines[len(lines) // 2 + 1:]) + '\n')
                        rb = tm.validate_trace(ctx, cfg, bad)
                        ctx.cov['trace_selftest'] = 'rejected' if not rb.ok else 'ACCEPTED'
                        if rb.ok:
                            ctx.inconclusive.append('trace-validation self-test: corrupted trace accepted')
                else:
                    keep = os.path.join(engine.VERIF, 'replays', '%s-live-%s-%d.ndjson' % (ctx.pid, cfg.name, seed))
                    os.makedirs(os.path.dirname(keep), exist_ok=True)
                    shutil.copy(out, keep)
                    idx = r.depth  # number of states reached = index of the first unexplained record
                    what = r.violation or 'TraceAccepted'
                    rec = lines[idx - 1] if 0 < idx <= len(lines) else ''
                    if r.error or r.timeout:
                        ctx.inconclusive.append('trace validation did not complete: %s' % (r.error or 'timeout')[:300])
                    else:
                        ctx.failures.append({'key': 'trace:' + what, 'property': True, 'kind': 'trace',
                                             'detail': 'recorded execution of real goroutines is not a behaviour of Tendermint.tla '
                                                       '(%s) at record %d: %s (trace kept at %s)' % (what, idx, rec[:600], keep),
                                             'engine': 'csim-live', 'replay': None, 'action': 'record %d' % idx, 'step': idx})
            finally:
                shutil.rmtree(d, ignore_errors=True)
    if plan.live_runs:
        ctx.cov['live_runs'] = total
        ctx.cov['live_traces_accepted_by_tlc'] = accepted
        ctx.cov['live_events'] = events


def scenario_traces(ctx, plan):
    """Directed witnesses: expand the hand-written schedule on the real nodes, let TLC follow it through the spec."""
    import json, os, subprocess, tempfile
    from . import tm_scenarios
    out = []
    cfg = tm.Cfg('scen-n4', [1, 1, 1, 1], [4], max_round=3, max_height=1, nbyz=1, budget=-1, own_first=False, useful_only=False)
    base = cfg
    for name in plan.scenarios:
        steps = tm_scenarios.ALL[name]()
        ov = tm_scenarios.CFG.get(name)
        cfg = base if not ov else tm.Cfg('scen-n4-' + name[:12], [1, 1, 1, 1], [4], max_round=ov.get('max_round', 3), max_height=ov.get('max_height', 1),
                                         nbyz=1, budget=-1, own_first=False, useful_only=False,
                                         crashes=ov.get('crashes', 0), crash_set=ov.get('crash_set', ()))
        d = tempfile.mkdtemp(prefix='vscen-')
        try:
            tr = {'id': 'free-' + name, 'cfg': {'Power': cfg.power, 'Byz': cfg.byz, 'MaxRound': cfg.max_round, 'MaxHeight': cfg.max_height},
                  'steps': [{'a': s[0], 'args': s[1:]} for s in steps]}
            fp = os.path.join(d, 'free.json')
            ex = os.path.join(d, 'expanded.json')
            with open(fp, 'w') as f:
                f.write(json.dumps(tr) + '\n')
            p = subprocess.run([os.path.join(engine.HARNESS, engine.BIN, 'csim'), fp], stdout=subprocess.PIPE, stderr=subprocess.PIPE,
                               text=True, errors='replace', timeout=300, env=dict(engine.GOENV, VERIF_CSIM_EXPAND=ex))
            if p.returncode != 0 or not os.path.exists(ex):
                ctx.inconclusive.append('scenario %s could not be expanded on the real nodes' % name)
                continue
            script = json.load(open(ex))
        finally:
            import shutil
            shutil.rmtree(d, ignore_errors=True)
        t, n, r = tm.scripted(ctx, cfg, script, name)
        ctx.cov['tlc_runs'].append(dict(r.summary(), name='Script/' + name, exhaustive=False))
        if t is None:
            # the real nodes follow the schedule but the specification cannot: a conformance failure located at step n
            ctx.failures.append({'key': 'scenario-diverges:' + name, 'property': True, 'kind': 'mismatch',
                                 'detail': 'the real nodes execute the schedule %s but Tendermint.tla cannot follow it beyond step %d: %s'
                                           % (name, n, json.dumps(script[n] if n < len(script) else None)[:300]),
                                 'engine': 'csim', 'replay': None, 'action': name, 'step': n})
            continue
        for ps in tm_scenarios.APPEND.get(name, []):
            t['steps'].append({'a': ps[0], 'args': ps[1:], 'post': t['steps'][-1]['post']})
        out.append(t)
    return out


def run_ticker(ctx):
    import os
    from .. import tlc
    engine.build_go(ctx, ['ticker'])
    r = engine.tlc_check(ctx, tm.SPEC, 'Ticker.tla', 'MC_Ticker.cfg', name='Ticker', dump=True, workers=2, timeout=300)
    if r.violation or not r.scratch:
        ctx.inconclusive.append('Ticker.tla: %s' % (r.violation or r.error))
        tlc.cleanup(r)
        return
    g = tlc.parse_dot(os.path.join(r.scratch, 'graph.dot'), drop_vars=('res',))
    tlc.cleanup(r)
    # Fire can only be replayed after a Schedule that was accepted in the step just before it
    paths, cov, want = tlc.edge_cover_paths(g, ctx.rng, max_len=6)
    traces = []
    for k, p in enumerate(paths):
        t = tlc.path_to_steps(g, p)
        t['id'] = 'ticker-%d' % k
        traces.append(t)
    rep = engine.run_driver(ctx, 'ticker', traces, timeout=900)
    engine.collect(ctx, rep, traces, 'ticker')
    ctx.cov['ticker_paths'] = rep['traces']
    ctx.cov['ticker_checks'] = rep['checks']
    ctx.cov['ticker_counters'] = rep.get('counters', {})


def run_family(ctx, plan, replay=None):
    engine.build_go(ctx, ['csim'])
    if replay is not None:
        drv = replay.get('engine') or 'csim'
        if drv == 'ticker':
            engine.build_go(ctx, ['ticker'])
        rep = engine.run_driver(ctx, drv, [replay['trace']], timeout=900, env=plan.env)
        engine.collect(ctx, rep, [replay['trace']], drv)
        ctx.cov['traces_validated_against_impl'] = 1
        ctx.cov['states'] = ctx.cov['transitions'] = max(1, len(replay['trace']['steps']))
        ctx.sample({'replayed': len(replay['trace']['steps'])})
        return
    quick = ctx.tier == 'quick'
    traces = []
    for cfg, goals in plan.exhaustive:
        r = tm.check(ctx, cfg, timeout=1200 if quick else 7200)
        if r.violation:
            ctx.inconclusive.append('spec property %s violated in %s: a defect of the specification/design; it becomes a '
                                    'verdict about the code only when the replay reproduces it' % (r.violation, cfg.name))
            ctx.cov.setdefault('spec_counterexamples', []).append({'cfg': cfg.name, 'property': r.violation,
                                                                    'length': len(r.trace)})
        for g in goals:
            wr, w = tm.witness(ctx, cfg, g, timeout=900)
            if w:
                traces.append(w)
            else:
                ctx.cov.setdefault('unreached_goals', []).append('%s/%s' % (cfg.name, g))
    live_cex = []
    for cfg in plan.live:
        r = tm.check(ctx, cfg, timeout=1200 if quick else 7200)
        if r.violation and r.trace:
            # a wedge / non-termination of the specification: replay the prefix on the real nodes and let the fair
            # drain decide whether the real code is stuck as well (then it is a finding about the code)
            t = tm.trace_of(cfg, r, 'live-cex-' + r.violation)
            t['steps'].append({'a': 'Drain', 'args': [cfg.max_height, plan.drain or 60], 'post': t['steps'][-1]['post']})
            live_cex.append(t)
            ctx.cov.setdefault('spec_counterexamples', []).append({'cfg': cfg.name, 'property': r.violation,
                                                                    'length': len(r.trace)})
        elif r.violation:
            ctx.inconclusive.append('liveness/deadlock property violated on the specification in %s (%s)' % (cfg.name, r.violation))
    for cfg, num, depth in plan.sims:
        r, ts = tm.simulate(ctx, cfg, num, depth, ctx.seed, timeout=1800)
        ctx.add_tlc('Tendermint/' + cfg.name, r, exhaustive=False)
        ctx.log('simulated %s: %d behaviours' % (cfg.name, len(ts)))
        traces += ts
    for sd, mod, cfgf, expect in plan.extra_tlc:
        r = engine.tlc_check(ctx, sd, mod, cfgf, name='%s/%s' % (mod, cfgf), timeout=900)
        if (r.violation or None) != expect:
            ctx.inconclusive.append('%s %s: expected %s, TLC reports %s %s' % (mod, cfgf, expect, r.violation, (r.error or '')[:200]))
    run_live(ctx, plan)
    if plan.ticker:
        run_ticker(ctx)
    # binding self-test: corrupt one expected field
    probe = None
    for t in traces:
        if len(t['steps']) > 3:
            probe = copy.deepcopy(t)
            probe['steps'] = probe['steps'][:4]
            nd = probe['steps'][3]['post']['node']
            first = nd[0] if isinstance(nd, list) else nd[sorted(nd)[0]]
            first['st'] = 8 if first.get('st') != 8 else 1
            break
    if probe:
        rep = engine.run_driver(ctx, 'csim', [probe], timeout=300)
        ctx.cov['binding_selftest'] = 'rejected' if rep.get('failures') else 'ACCEPTED'
        if not rep.get('failures'):
            ctx.inconclusive.append('binding self-test: corrupted trace accepted')
    add_pseudo(ctx, traces, plan)
    traces += scenario_traces(ctx, plan)
    # scripted adversarial schedules that once broke a property on the real code (regression scenarios)
    import glob, json, os
    for p in sorted(glob.glob(os.path.join(tm.SPEC, 'scenarios', '*.json'))):
        with open(p) as f:
            for line in f:
                if line.strip():
                    traces.append(json.loads(line))
    for k, t in enumerate(traces):
        t['cfg'] = dict(t['cfg'], Variant=k)
    if live_cex:
        rep0 = engine.run_driver(ctx, 'csim', live_cex, timeout=900, env=plan.env)
        engine.collect(ctx, rep0, live_cex, 'csim')
        if not rep0.get('failures'):
            ctx.inconclusive.append('the specification admits a wedge that the real nodes do not reproduce: the '
                                    'specification misrepresents the code (%s)' % ', '.join(t['id'] for t in live_cex))
    rep = engine.run_driver(ctx, 'csim', traces, timeout=3600, env=plan.env)
    engine.collect(ctx, rep, traces, 'csim')
    ctx.cov['traces_validated_against_impl'] = rep['traces']
    ctx.cov['evaluations'] = rep['steps']
    ctx.cov['impl_checks'] = rep['checks']
    ctx.cov['driver_counters'] = rep.get('counters', {})
    ctx.cov['distinct_nontrivial'] = sum(1 for t in traces if tm.nontrivial(t))
    ctx.cov['rule'] = ('behaviours = TLC counterexamples to reachability goals + tlc -simulate random behaviours; every '
                       'action executed on real pbft.ConsensusState nodes (real WAL, signer file, block store) and every '
                       'node compared with the spec state after every action; non-trivial = reaches round >= 1, a lock, '
                       'a decision, or contains a Byzantine message / crash. ' + plan.rule_extra)
    for t in traces[:2]:
        ctx.sample({'id': t['id'], 'actions': ['%s%s' % (s['a'], s['args']) for s in t['steps'][:8]]})
    ctx.assumptions += ['signatures unforgeable; sign-bytes injective (a vote is identified by chain,h,r,type,block id)',
                        'small scope: <=4 validators, rounds<=3, heights<=3; blocks are a single part',
                        'the reactor gossip layer is replaced by the scheduler (any delivery order, duplication, loss)'] \
        + plan.assumptions
