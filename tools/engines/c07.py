"""C07 WAL replay: Tendermint.tla with Crash / CrashTorn / Restart (Restart = fold of the handlers over the WAL
records of the height); behaviours with crashes at arbitrary points and torn last records replayed on real nodes
(real WAL files cut inside the last line, real catchupReplay), plus probes that start a REAL ConsensusState
(OnStart + receiveRoutine) on a copy of the node directory and compare it with the stepped restart."""
from . import tm_common as tm
from .tm_family import Plan, run_family


def plan(tier):
    p = Plan()
    quick = tier == 'quick'
    goals = ['NoRestartMidHeight', 'NoDecisionAfterCrash', 'ReplayRestores']
    p.exhaustive = [(tm.Cfg('n3p112-b0-r0-crash1', [1, 1, 2], [1], max_round=0, budget=0, crashes=1, crash_set=[2],
                            torn=True), goals)]
    if not quick:
        p.exhaustive += [(tm.Cfg('n3p112-b0-r1-crash1', [1, 1, 2], [1], max_round=1, budget=0, crashes=1,
                                 crash_set=[2], torn=True), goals), (tm.Cfg('n3p112-b0-r1-crash2', [1, 1, 2], [1], max_round=1, budget=0, crashes=2,
                                 crash_set=[2, 3], torn=True), goals),
                         (tm.Cfg('n3p112-b1-r1-crash1', [1, 1, 2], [1], max_round=1, budget=1, crashes=1,
                                 crash_set=[3], torn=True), [])]
    n = 40 if quick else 400
    p.sims = [(tm.Cfg('sim-crash-n4', [1, 1, 1, 1], [4], max_round=2, max_height=2, nbyz=1, budget=3, crashes=4,
                      crash_set=[1, 2, 3], own_first=False, useful_only=True, torn=True), n, 120),
              (tm.Cfg('sim-crash-n3', [1, 1, 2], [1], max_round=2, max_height=2, nbyz=1, budget=2, crashes=6,
                      crash_set=[2, 3], own_first=False, useful_only=True, torn=True), n, 120)]
    # an honest validator leaves the set at height 2: restarts there must rebuild LastCommit against the PREVIOUS validator set
    p.sims.append((tm.Cfg('sim-crash-n5-remove', [1, 1, 1, 1, 1], [5], max_round=1, max_height=2, nbyz=1, budget=2, crashes=3,
                          crash_set=[1, 2, 4], own_first=False, useful_only=True, sync=True, torn=True,
                          next_power={2: [1, 1, 0, 1, 1]}), n, 160))
    p.probe_real_start = 1 if quick else 2
    p.env = {'VERIF_ORACLE_RESTORE': '1'}
    p.rule_extra = ('Crash points are every position of the behaviour; torn records are cut at a position derived from the '
                    'step index; RealStartProbe clones the node directory and runs the real OnStart/receiveRoutine.')
    p.assumptions = ['process crash model: what was written before the kill is on disk (no power-loss reordering)']
    # a height with more than ten scheduled timeouts in its WAL, then a REAL Start() on a copy of the directory
    p.scenarios = list(p.scenarios) + ['many_rounds_then_restart', 'lock_survives_restart', 'restart_in_height_2']
    return p


def run(ctx, replay=None):
    run_family(ctx, plan(ctx.tier), replay)
