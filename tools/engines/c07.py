"""C07 WAL replay: Tendermint.tla with Crash / CrashTorn / Restart (Restart = fold of the handlers over the WAL
records of the height); behaviours with crashes at arbitrary points and torn last records replayed on real nodes
(real WAL files cut inside the last line, real catchupReplay), plus probes that start a REAL ConsensusState
(OnStart + receiveRoutine) on a copy of the node directory and compare it with the stepped restart."""
import copy
import os

from .. import engine, tlc
from . import tm_common as tm
from .tm_family import Plan, run_family


def plan(tier):
    p = Plan()
    quick = tier == 'quick'
    goals = ['NoRestartMidHeight', 'NoDecisionAfterCrash', 'ReplayRestores']
    p.exhaustive = [(tm.Cfg('n3p112-b0-r0-crash1', [1, 1, 2], [1], max_round=0, budget=0, crashes=1, crash_set=[2],
                            torn=True), goals)]
    if not quick:
        p.exhaustive += [(tm.Cfg('n3p112-b0-r1-crash1', [1, 1, 2], [1], max_round=1, budget=0, crashes=1,
                                 crash_set=[2], torn=True), goals), (tm.Cfg('n3p112-b0-r1-crash2', [1, 1, 2], [1], max_round=1, budget=0, crashes=2,
                                 crash_set=[2, 3], torn=True), goals),
                         (tm.Cfg('n3p112-b1-r1-crash1', [1, 1, 2], [1], max_round=1, budget=1, crashes=1,
                                 crash_set=[3], torn=True), [])]
    n = 40 if quick else 400
    p.sims = [(tm.Cfg('sim-crash-n4', [1, 1, 1, 1], [4], max_round=2, max_height=2, nbyz=1, budget=3, crashes=4,
                      crash_set=[1, 2, 3], own_first=False, useful_only=True, torn=True), n, 120),
              (tm.Cfg('sim-crash-n3', [1, 1, 2], [1], max_round=2, max_height=2, nbyz=1, budget=2, crashes=6,
                      crash_set=[2, 3], own_first=False, useful_only=True, torn=True), n, 120)]
    # an honest validator leaves the set at height 2: restarts there must rebuild LastCommit against the PREVIOUS validator set
    p.sims.append((tm.Cfg('sim-crash-n5-remove', [1, 1, 1, 1, 1], [5], max_round=1, max_height=2, nbyz=1, budget=2, crashes=3,
                          crash_set=[1, 2, 4], own_first=False, useful_only=True, sync=True, torn=True,
                          next_power={2: [1, 1, 0, 1, 1]}), n, 160))
    p.probe_real_start = 1 if quick else 2
    p.rotate_wal = 1
    p.env = {'VERIF_ORACLE_RESTORE': '1'}
    p.rule_extra = ('Crash points are every position of the behaviour; torn records are cut at a position derived from the '
                    'step index; RealStartProbe clones the node directory and runs the real OnStart/receiveRoutine.')
    p.assumptions = ['process crash model: what was written before the kill is on disk (no power-loss reordering)']
    # a height with more than ten scheduled timeouts in its WAL, then a REAL Start() on a copy of the directory
    p.scenarios = list(p.scenarios) + ['many_rounds_then_restart', 'lock_survives_restart', 'restart_in_height_2']
    return p


WALSPEC = os.path.join(engine.VERIF, 'specs', 'walgroup')


def run_walgroup(ctx, replay=None):
    """The layer under Tendermint.tla's `wal`: WalGroup.tla (head file + rotated files + write buffer + marker search)
    model-checked, every edge of the small state graph and simulated behaviours of the larger one replayed on the real
    pbft.WAL / autofile.Group."""
    engine.build_go(ctx, ['walgroup'])
    if replay is not None:
        rep = engine.run_driver(ctx, 'walgroup', [replay['trace']])
        engine.collect(ctx, rep, [replay['trace']], 'walgroup')
        return
    quick = ctx.tier == 'quick'
    traces = []
    # sensitivity: the code before the two repairs must violate the replay property on the specification
    for cfgf, expect in (('MC_WalGroup_orig.cfg', ('CurrentHeightFound', 'ReplayReadsLog', 'ReplayNoError')),
                         ('MC_WalGroup_orig2.cfg', ('ReplayReadsLog', 'ReplayNoError', 'MarkersOrdered', 'CurrentHeightFound'))):
        r = engine.tlc_check(ctx, WALSPEC, 'MC_WalGroup.tla', cfgf, name='WalGroup/' + cfgf[12:-4], workers=4, timeout=600)
        if r.violation not in expect:
            ctx.inconclusive.append('WalGroup %s: expected a violation of %s (pre-repair code), TLC reports %s %s'
                                    % (cfgf, expect, r.violation, (r.error or '')[:200]))
        else:
            ctx.cov.setdefault('expected_spec_violations', []).append({'cfg': cfgf, 'property': r.violation})
        # the sensitivity runs end with a violation by design: they are not part of the exhaustive coverage figures
        ctx.cov['tlc_runs'][-1]['exhaustive'] = False
        tlc.cleanup(r)
    for name in (['g', 'q'] if quick else ['g', 'q', 't', 'x']):
        dump = name == 'g'
        r = engine.tlc_check(ctx, WALSPEC, 'MC_WalGroup.tla', 'MC_WalGroup_%s.cfg' % name, name='WalGroup/' + name, dump=dump,
                             workers=8, timeout=900 if quick else 3600)
        if r.violation:
            ctx.inconclusive.append('WalGroup.tla: invariant %s violated in configuration %s (specification defect unless the '
                                    'replay reproduces it)' % (r.violation, name))
        if dump and r.scratch:
            g = tlc.parse_dot(os.path.join(r.scratch, 'graph.dot'), drop_vars=())
            paths, cov, want = tlc.edge_cover_paths(g, ctx.rng, max_len=24)
            ctx.log('walgroup graph %s: %d states %d edges -> %d paths covering %d/%d edges' % (name, len(g.states), len(g.edges), len(paths), cov, want))
            ctx.cov['walgroup_graph_edges_covered'] = cov
            ctx.cov['walgroup_graph_edges_total'] = want
            for k, p in enumerate(paths):
                t = tlc.path_to_steps(g, p)
                t['cfg'] = {}
                t['id'] = 'walgroup-graph-%d' % k
                traces.append(t)
        tlc.cleanup(r)
    for name, num, depth in ([('q', 150, 24), ('t', 100, 30)] if quick else [('q', 1500, 26), ('t', 1500, 34)]):
        r, ts = tlc.simulate_traces(WALSPEC, 'MC_WalGroup.tla', 'MC_WalGroup_%s.cfg' % name, num, depth, ctx.seed, drop_vars=())
        ctx.add_tlc('WalGroup/sim-' + name, r, exhaustive=False)
        for k, t in enumerate(ts):
            t['cfg'] = {}
            t['id'] = 'walgroup-sim-%s-%d-%d' % (name, ctx.seed, k)
            traces.append(t)
    # binding self-test: a corrupted expectation (one more replayed record) must be rejected
    probe = None
    for t in traces:
        for si, st in enumerate(t['steps']):
            if st['a'] == 'Start':
                probe = copy.deepcopy(t)
                probe['steps'] = probe['steps'][:si + 1]
                probe['steps'][si]['post']['chk']['got'] = list(probe['steps'][si]['post']['chk']['got']) + [9]
                break
        if probe:
            break
    if probe:
        rep = engine.run_driver(ctx, 'walgroup', [probe])
        ctx.cov['walgroup_binding_selftest'] = 'rejected' if rep.get('failures') else 'ACCEPTED'
        if not rep.get('failures'):
            ctx.inconclusive.append('walgroup binding self-test: corrupted trace accepted')
    rep = engine.run_driver(ctx, 'walgroup', traces, timeout=1800)
    engine.collect(ctx, rep, traces, 'walgroup')
    ctx.cov['walgroup_traces'] = rep['traces']
    ctx.cov['walgroup_steps'] = rep['steps']
    ctx.cov['walgroup_checks'] = rep['checks']
    ctx.cov['walgroup_counters'] = rep.get('counters', {})
    ctx.assumptions.append('WAL group: deletion of the oldest files by the total-size limit (1 GiB) is not modelled; a record is '
                           'only ever torn in the file that was the head when the process died')


def run(ctx, replay=None):
    if replay is not None and (replay.get('engine') == 'walgroup'):
        run_walgroup(ctx, replay)
        return
    if replay is None:
        run_walgroup(ctx)
    run_family(ctx, plan(ctx.tier), replay)
