"""C17 block parts and Merkle proofs: SimpleMerkle.tla (symbolic hash; proof completeness and soundness over every
index, leaf and single-field mutation) and PartSet.tla (AddPart over every claimed index x source part x mutation)
exhaustively model-checked; every edge of PartSet's state graphs is replayed on the real types.PartSet with real
hashes, the real Merkle tree is required to BE the model's tree, and SimpleProof.Verify / NewPartSetFromData /
reassembly are brute-forced on the real code independently of the model."""
import copy
import os
import shutil

from .. import engine, tlc

SPEC = os.path.join(engine.VERIF, 'specs', 'partset')
DROP = ('res',)
WORKERS = int(os.environ.get('VERIF_TLC_WORKERS') or 8)
PART_SIZES = [1, 2, 7, 4096]


def dyn_cfg(total, rng, k):
    ps = PART_SIZES[k % len(PART_SIZES)] if k < 64 else rng.choice(PART_SIZES + [3, 64])
    choices = [total * ps, (total - 1) * ps + 1]
    if ps > 1:
        choices.append(total * ps - 1)
        choices.append((total - 1) * ps + 1 + rng.randrange(ps))
    L = rng.choice(choices)
    assert (L + ps - 1) // ps == total
    return {'kind': 'dyn', 'partSize': ps, 'dataLen': L, 'salt': rng.randrange(1000)}


def nontrivial(tr):
    """Non-trivial: a dynamic behaviour that contains at least one refused non-genuine part and one accepted part,
    or any static brute-force unit."""
    if tr['cfg']['kind'] != 'dyn':
        return True
    acc = any(s['args'][3] == 'added' for s in tr['steps'])
    rej = any(s['args'][3] in ('errProof', 'errIndex') for s in tr['steps'])
    if tr['init'].get('hdr', 'genuine') != 'genuine':
        return rej      # under the crafted empty-root header nothing is ever accepted
    return acc and rej


def consensus_slice(ctx):
    """Third mechanism of C17 (state.go addProposalBlockPart / enterPrecommit / enterCommit): the block a node holds as
    ProposalBlock is the one decoded from the COMPLETE part set of the voted PartSetHeader.  The situations come from
    PeerInput.tla (model-checked here for the situations in which the node still takes the round's proposal); in each,
    the real ConsensusState gets a Byzantine proposal whose block has the voted header (same Block.Hash) around another
    body, reassembles it, then receives +2/3 prevotes and +2/3 precommits for the genuine BlockID before any genuine
    part: it must drop the unvoted body, wait for the genuine parts and only then commit (driver `peerinput`, oracle
    keys unvoted-body-kept / committed-unvoted-body / crash / wedge)."""
    from . import c08
    quick = ctx.tier == 'quick'
    cand = ['Propose', 'Round1', 'NewHeight', 'NewHeight2']
    sits = sorted(ctx.rng.sample(cand, 2)) if quick else cand
    d = tlc.scratch_copy([c08.tm.SPEC, c08.SPEC], prefix='vps')
    try:
        T = c08.write_mc(ctx, d, pairwise=False, sits=sits)
        r = engine.tlc_check(ctx, d, 'MC_PeerInput.tla', 'MC_gen.cfg', name='PeerInput/late-parts-situations',
                             workers=WORKERS, timeout=600 if quick else 1800, dump=True)
        if r.violation:
            ctx.inconclusive.append('spec property %s violated in PeerInput.tla (a defect of the specification, not a verdict '
                                    'about the code)' % r.violation)
        if not r.scratch or not os.path.exists(os.path.join(r.scratch, 'graph.dot')):
            raise engine.Inconclusive('TLC produced no PeerInput state graph: %s' % (r.error or r.out[-1500:]))
        setups, _pairs, _others = c08.read_plan(os.path.join(r.scratch, 'graph.dot'))
        tlc.cleanup(r)
    finally:
        shutil.rmtree(d, ignore_errors=True)
    if set(setups) != set(sits):
        raise engine.Inconclusive('PeerInput state graph incomplete: situations %s' % sorted(setups))
    traces = [{'id': 'lateparts-%s-%s' % (sit, sc), 'cfg': {'T': T},
               'steps': [c08.setup_step(sit, setups), {'a': 'Scenario', 'args': [sc], 'post': {}}]}
              for sit in sits for sc in ('same-header-other-body-late-parts', 'same-header-other-data-late-parts')]
    rep = c08.run_parallel(ctx, traces, workers=min(len(traces), WORKERS), timeout=1500)
    engine.collect(ctx, rep, traces, 'peerinput')
    cnt = rep.get('counters', {})
    ctx.cov['consensus_slice'] = {'situations': sits, 'behaviours': len(traces), 'scenario_messages': cnt.get('scenario_messages', 0),
                                  'checks': rep.get('checks', 0)}
    if not cnt.get('scenario_messages'):
        ctx.inconclusive.append('consensus slice delivered no scenario message')
    # directed schedule of Tendermint.tla (followed by TLC, replayed on real nodes by csim): a proposer's OWN queued parts
    # of block w meet a part set that +2/3 precommits have just re-created for another block v; they must be proof-checked
    # like anybody's (not enter v's set), and the genuine part of v must then complete it.  Only divergences in the
    # proposal block / part-set projection (pb, pp) are verdicts about C17; the rest belongs to C01/C04/C12.
    from .tm_family import Plan, scenario_traces
    sp = Plan()
    sp.scenarios = ['own_parts_after_commit_for_other']
    nf = len(ctx.failures)
    st = scenario_traces(ctx, sp)
    del ctx.failures[nf:]
    if st:
        srep = engine.run_driver(ctx, 'csim', st, timeout=1800)
        other = [f for f in (srep.get('failures') or []) if not about_parts(f)]
        srep['failures'] = [f for f in (srep.get('failures') or []) if about_parts(f)]
        engine.collect(ctx, srep, st, 'csim')
        ctx.cov['consensus_slice'].update({'directed_schedules': sp.scenarios, 'directed_steps': srep.get('steps', 0),
                                           'other_divergences_ignored': len(other)})
        traces = traces + st
    else:
        ctx.inconclusive.append('directed schedule own_parts_after_commit_for_other produced no behaviour')
    return traces, rep


def about_parts(f):
    import re
    txt = '%s %s' % (f.get('key') or '', f.get('detail') or '')
    return bool(re.search(r'state:(pb|pp)\b|\[[^\]]*\b(pb|pp)\b[^\]]*\]', txt))


def run(ctx, replay=None):
    engine.build_go(ctx, ['partset'])
    if replay is not None and replay.get('engine') == 'csim':
        engine.build_go(ctx, ['csim'])
        rep = engine.run_driver(ctx, 'csim', [replay['trace']], timeout=900)
        rep['failures'] = [f for f in (rep.get('failures') or []) if about_parts(f)]
        engine.collect(ctx, rep, [replay['trace']], 'csim')
        ctx.cov['traces_validated_against_impl'] = 1
        ctx.cov['states'] = ctx.cov['transitions'] = max(1, len(replay['trace']['steps']))
        return
    if replay is not None and any(s.get('a') in ('Setup', 'Scenario') for s in replay['trace'].get('steps') or []):
        engine.build_go(ctx, ['csim', 'peerinput'])
        rep = engine.run_driver(ctx, 'peerinput', [replay['trace']], timeout=900)
        engine.collect(ctx, rep, [replay['trace']], 'peerinput')
        ctx.cov['traces_validated_against_impl'] = 1
        ctx.cov['states'] = ctx.cov['transitions'] = len(replay['trace']['steps'])
        ctx.sample({'replayed': len(replay['trace']['steps'])})
        return
    if replay is not None:
        rep = engine.run_driver(ctx, 'partset', [replay['trace']])
        engine.collect(ctx, rep, [replay['trace']], 'partset')
        ctx.cov['traces_validated_against_impl'] = 1
        ctx.cov['states'] = ctx.cov['transitions'] = max(1, len(replay['trace'].get('steps') or []))
        ctx.sample({'replayed': len(replay['trace'].get('steps') or [])})
        return

    quick = ctx.tier == 'quick'
    all_traces = []

    # --- static Merkle scheme
    mcfg = 'MC_Merkle_q.cfg' if quick else 'MC_Merkle_t.cfg'
    r = engine.tlc_check(ctx, SPEC, 'MC_Merkle.tla', mcfg, name='SimpleMerkle/' + mcfg[10:-4], dump=True, workers=2,
                         timeout=600 if quick else 3000)
    if r.violation:
        ctx.inconclusive.append('spec invariant %s violated in %s (specification defect, not a verdict about the code)'
                                % (r.violation, mcfg))
    nconf = 0
    if r.scratch:
        g = tlc.parse_dot(os.path.join(r.scratch, 'graph.dot'))
        for sid in sorted(g.states, key=lambda k: g.states[k]['n']):
            st = g.states[sid]
            nconf += len(st['confusions'])
            all_traces.append({'id': 'merkle-%d' % st['n'], 'cfg': {'kind': 'merkle'}, 'init': st, 'steps': []})
    tlc.cleanup(r)
    # witness: the scheme does not bind the total (expected counterexample; every instance is in `confusions`)
    r = tlc.run(SPEC, 'MC_Merkle.tla', 'MC_Merkle_total.cfg', workers=1, timeout=300)
    ctx.cov['tlc_runs'].append(dict(r.summary(), name='SimpleMerkle/total-witness', exhaustive=False))
    ctx.cov['total_confusions_predicted'] = nconf
    if r.ok:
        ctx.notes.append('SimpleMerkle.tla no longer admits a proof verifying under another total')
    elif r.violation != 'ProofBindsTotal':
        ctx.inconclusive.append('total witness run failed: %s' % (r.error or r.violation))

    # --- PartSet
    exhaustive = ['3', '4', '5'] if quick else ['3', '4', '5', '6', '7']
    graph_cfgs = ['3', '4', '5'] if quick else ['3', '4', '5', '6']
    k = 0
    for name in exhaustive:
        cfgfile = 'MC_PartSet_%s.cfg' % name
        dump = name in graph_cfgs
        r = engine.tlc_check(ctx, SPEC, 'MC_PartSet.tla', cfgfile, name='PartSet/' + name, dump=dump, workers=WORKERS,
                             timeout=600 if quick else 3000, coverage=(name == '3'))
        if r.violation:
            ctx.inconclusive.append('spec invariant %s violated in config %s (specification defect, not a verdict '
                                    'about the code)' % (r.violation, name))
        if r.coverage:
            ctx.cov['action_coverage'] = {a: list(v) for a, v in r.coverage.items()}
            vac = [a for a, (d, t) in r.coverage.items() if t == 0]
            if vac:
                ctx.inconclusive.append('vacuous actions in PartSet/%s: %s' % (name, vac))
        if dump and r.scratch:
            g = tlc.parse_dot(os.path.join(r.scratch, 'graph.dot'), drop_vars=DROP)
            paths, cov, want = tlc.edge_cover_paths(g, ctx.rng, max_len=60)
            ctx.log('graph %s: %d states %d edges -> %d paths covering %d/%d edges' % (name, len(g.states), len(g.edges), len(paths), cov, want))
            ctx.cov['graph_edges_covered'] = ctx.cov.get('graph_edges_covered', 0) + cov
            ctx.cov['graph_edges_total'] = ctx.cov.get('graph_edges_total', 0) + want
            for p in paths:
                t = tlc.path_to_steps(g, p)
                t['cfg'] = dyn_cfg(t['init']['total'], ctx.rng, k)
                t['id'] = 'graph-%s-%d' % (name, k)
                k += 1
                all_traces.append(t)
        tlc.cleanup(r)
    for name, num, depth in ([] if quick else [('7', 120, 50)]):
        r, traces = tlc.simulate_traces(SPEC, 'MC_PartSet.tla', 'MC_PartSet_%s.cfg' % name, num, depth, ctx.seed, drop_vars=DROP)
        ctx.add_tlc('PartSet/sim-' + name, r, exhaustive=False)
        for j, t in enumerate(traces):
            t['cfg'] = dyn_cfg(t['init']['total'], ctx.rng, 1000 + j)
            t['id'] = 'sim-%s-%d-%d' % (name, ctx.seed, j)
            all_traces.append(t)
        ctx.log('simulated %s: %d behaviours' % (name, len(traces)))

    # --- direct oracles beyond the model
    all_traces.append({'id': 'sizes', 'cfg': {'kind': 'sizes', 'partSizes': [1, 2, 3, 7, 64, 4096], 'maxParts': 9 if quick else 33,
                                              'salt': ctx.seed}, 'init': {}, 'steps': []})
    # concurrent deliveries to one set: results must be linearizable w.r.t. PartSet.tla (checked directly by the driver)
    for k, (psz, G) in enumerate([(32768, 3), (65536, 2), (4096, 3)]):
        all_traces.append({'id': 'conc-%d' % k, 'init': {}, 'steps': [],
                           'cfg': {'kind': 'conc', 'seed': ctx.seed * 100 + k, 'trials': 150 if quick else 1500, 'partSize': psz, 'G': G}})
    for n in ([8, 9, 12] if quick else [8, 9, 11, 12, 13, 16, 17, 24]):
        all_traces.append({'id': 'bigtree-%d' % n, 'cfg': {'kind': 'bigtree', 'n': n}, 'init': {}, 'steps': []})

    # binding self-tests: corrupted expectations must be rejected
    probe = None
    for t in all_traces:
        if t['cfg']['kind'] != 'dyn':
            continue
        for si, s in enumerate(t['steps']):
            if s['args'][3] == 'errProof':
                probe = copy.deepcopy(t)
                probe['steps'] = probe['steps'][:si + 1]
                probe['steps'][si]['args'][3] = 'added'
                i = s['args'][0]
                probe['steps'][si]['post']['have'] = sorted(set(probe['steps'][si]['post']['have']) | {i})
                probe['steps'][si]['post']['count'] += 1
                break
        if probe:
            break
    probe2 = None
    for t in all_traces:
        if t['cfg']['kind'] == 'merkle' and t['init']['n'] == 3:
            probe2 = copy.deepcopy(t)
            probe2['init']['proofs'][0][0] = 'L2'
            probe2['init']['confusions'] = []
    ok = True
    for pr in (probe, probe2):
        if pr is None:
            ok = False
            continue
        rep = engine.run_driver(ctx, 'partset', [pr])
        if not rep.get('failures'):
            ok = False
    ctx.cov['binding_selftest'] = 'rejected' if ok else 'ACCEPTED'
    if not ok:
        ctx.inconclusive.append('binding self-test: a corrupted trace was accepted by the driver (or no probe found)')

    rep = engine.run_driver(ctx, 'partset', all_traces)
    engine.collect(ctx, rep, all_traces, 'partset')
    engine.build_go(ctx, ['csim', 'peerinput'])
    ctraces, crep = consensus_slice(ctx)
    ctx.cov['traces_validated_against_impl'] = rep['traces'] + len(ctraces)
    ctx.cov['evaluations'] = rep['checks']
    ctx.cov['distinct_nontrivial'] = sum(1 for t in all_traces if nontrivial(t))
    ctx.cov['rule'] = ('behaviours = edge-cover paths of PartSet state graphs (every transition once, each transition '
                       'concretised into all byte-level variants of its mutation class) + tlc -simulate behaviours + one '
                       'static unit per tree size / size sweep; non-trivial = a dynamic behaviour with both an accepted and a '
                       'refused part, or a static brute-force unit; evaluations = driver checks (AddPart calls, Verify calls, '
                       'state comparisons)')
    ctx.cov['impl_steps'] = rep['steps']
    ctx.cov['driver_counters'] = rep.get('counters', {})
    ctx.cov['exhaustive'] = True
    for t in all_traces:
        if t['cfg']['kind'] == 'dyn':
            ctx.sample({'id': t['id'], 'cfg': t['cfg'], 'total': t['init']['total'], 'hdr': t['init'].get('hdr'),
                        'actions': ['%s%s' % (s['a'], s['args']) for s in t['steps'][:10]]}, limit=3)
    ctx.assumptions += ['the hash is collision free and leaf/inner hashes never coincide (symbolic hash in the specs); '
                        'SimpleHashFromTwoHashes has no leaf/inner domain separation - second-preimage crafting is out of scope',
                        'part size >= 1 (NewPartSetFromData divides by it); header.Total >= 0; receiver headers: the genuine one and the crafted '
                        '{right Total, nil / zero-length Hash} under which no part is genuine',
                        'the receiver takes total and root from the same header; what a proof shows under ANOTHER total is '
                        'recorded as the known finding ProofBindsTotal']
