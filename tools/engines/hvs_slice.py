"""C15 slice: HeightVoteSet.tla (routing of votes to the vote sets of their round and type, catch-up rounds charged to the
delivering peer) model-checked; simulated behaviours replayed on the real pbft.HeightVoteSet."""
import copy
import os

from .. import engine, tlc

SPEC = os.path.join(engine.VERIF, 'specs', 'heightvoteset')
DROP = ('res', 'steps')
CFGS = {'q': {'N': 2, 'Power': [1, 2], 'Blocks': ['nil', 'A'], 'Peers': ['p1', 'p2'], 'MaxRound': 2},
        's': {'N': 4, 'Power': [1, 1, 1, 1], 'Blocks': ['nil', 'A', 'B'], 'Peers': ['p1', 'p2'], 'MaxRound': 3}}


def run(ctx, quick):
    engine.build_go(ctx, ['hvs'])
    r = engine.tlc_check(ctx, SPEC, 'MC_HeightVoteSet.tla', 'MC_HeightVoteSet_q.cfg', name='HeightVoteSet/q', timeout=900)
    if r.violation:
        ctx.inconclusive.append('HeightVoteSet.tla: %s violated in configuration q (specification defect unless the replay reproduces it)' % r.violation)
    tlc.cleanup(r)
    traces = []
    for name, num, depth in ([('q', 150, 6), ('s', 250, 10)] if quick else [('q', 1500, 6), ('s', 3000, 10)]):
        rr, ts = tlc.simulate_traces(SPEC, 'MC_HeightVoteSet.tla', 'MC_HeightVoteSet_%s.cfg' % name, num, depth, ctx.seed, drop_vars=DROP)
        ctx.add_tlc('HeightVoteSet/sim-' + name, rr, exhaustive=False)
        for k, t in enumerate(ts):
            t['cfg'] = dict(CFGS[name], Variant=k)
            t['id'] = 'hvs-sim-%s-%d-%d' % (name, ctx.seed, k)
            traces.append(t)
    probe = None
    for t in traces:
        for si, s in enumerate(t['steps']):
            if s['a'] == 'AddVote' and s['args'][6] == 'added':
                probe = copy.deepcopy(t)
                probe['steps'] = probe['steps'][:si + 1]
                a = probe['steps'][si]['args']
                row = probe['steps'][si]['post']['votes']
                row = row[a[1]] if isinstance(row, list) else row[str(a[1])]
                row[a[2]][a[3] - 1] = 'none'
                break
        if probe:
            break
    if probe:
        rep = engine.run_driver(ctx, 'hvs', [probe])
        ctx.cov['hvs_binding_selftest'] = 'rejected' if rep.get('failures') else 'ACCEPTED'
        if not rep.get('failures'):
            ctx.inconclusive.append('hvs binding self-test: corrupted trace accepted')
    rep = engine.run_driver(ctx, 'hvs', traces, timeout=1200)
    engine.collect(ctx, rep, traces, 'hvs')
    catchup = sum(1 for t in traces if any(len(c) > 0 for s in t['steps'][-1:] for c in (s['post']['catch'].values() if isinstance(s['post']['catch'], dict) else s['post']['catch'])))
    ctx.cov['hvs_traces'] = rep['traces']
    ctx.cov['hvs_steps'] = rep['steps']
    ctx.cov['hvs_checks'] = rep['checks']
    ctx.cov['hvs_traces_with_catchup_round'] = catchup
