"""Raft consensus mode slice of C06 (crash-atomic commit) -- also evidence for C05/C01 (same blocks, same order).

specs/raftmode/RaftMode.tla (BlockChainFSM.Apply split at its durable writes, re-delivery of the raft log after a
restart, Snapshot/Restore, the leader loop, leadership change) is model-checked exhaustively; every behaviour
replayed is executed on REAL raft-mode nodes (harness/cmd/raftfsm: production assembly with consensus = "raft",
LevelDB block store / state, the real EVM application), crashes are injected at the durable-write failpoints, and
a real three-node hashicorp/raft cluster with the real leader loop is run and its recorded FSM.Apply events are
judged against the spec's properties.  Failure keys are prefixed "raft:"."""
import copy
import json
import os
import subprocess
from concurrent.futures import ThreadPoolExecutor

from .. import engine, tlc, tlaval

SPEC = os.path.join(engine.VERIF, 'specs', 'raftmode')
MOD = 'MC_RaftMode.tla'
WORKERS = int(os.environ.get('VERIF_TLC_WORKERS') or 4)
# name -> (cfg, number of replicas)
CFGS = {'g1': ('MC_RaftMode_g1.cfg', 1), 'g2': ('MC_RaftMode_g2.cfg', 2), 'q': ('MC_RaftMode_q.cfg', 2),
        't': ('MC_RaftMode_t.cfg', 2), 't3': ('MC_RaftMode_t3.cfg', 3)}
# models of code that is NOT the repository's: a violation is expected
NEG = {'fork': ('MC_RaftMode_fork.cfg', 'Agreement', 'FSM before the repair: Restore discards the snapshot'),
       'stuck': ('MC_RaftMode_stuck.cfg', 'LeaderNotStuck', 'leader loop waits for appliedCh after a lost proposal (liveness, documented)')}


def _interesting(e):
    a, args = e[1], e[2]
    return a in ('InstallSnap', 'Crash', 'Restart', 'Snapshot') or (a == 'Deliver' and args[1] in ('behind', 'dup'))


def _behind(e):
    return e[1] == 'Deliver' and e[2][1] == 'behind'


def _paths(ctx, g, n, rng, budget, first=()):
    """Edge-cover paths; edges selected by the predicates in `first` are covered before the rest."""
    out, seen = [], set()
    for pred, cap in first:
        ps, _, _ = tlc.edge_cover_paths(g, rng, max_len=60, max_paths=cap, only=pred)
        for p in ps:
            if tuple(p) not in seen:
                seen.add(tuple(p))
                out.append(p)
    if budget is None or len(out) < budget:
        ps, cov, want = tlc.edge_cover_paths(g, rng, max_len=60, max_paths=None if budget is None else budget - len(out))
        for p in ps:
            if tuple(p) not in seen:
                seen.add(tuple(p))
                out.append(p)
    edges = set(k for p in out for k in p)
    return out, len(edges), len(g.edges)


def _trace(g, p, n, seed, ident, reexec, variants=True):
    t = tlc.path_to_steps(g, p)
    t['cfg'] = {'N': n, 'Seed': seed, 'Reexec': reexec, 'Variants': variants}
    t['id'] = ident
    return t


def nontrivial(t):
    """A behaviour is non-trivial when a replica dies inside Apply or restarts, an entry is dropped (duplicate /
    behind a snapshot), a snapshot is installed, or two replicas apply blocks."""
    acts = [(s['a'], s['args']) for s in t['steps']]
    if any(a in ('Crash', 'Restart', 'InstallSnap') for a, _ in acts):
        return True
    if any(a == 'Deliver' and x[1] != 'apply' for a, x in acts):
        return True
    return len(set(x[0] for a, x in acts if a == 'W_StSave')) > 1


def _cluster(ctx, quick):
    cmd = [os.path.join(engine.HARNESS, engine.BIN, 'raftfsm'), 'cluster', '-blocks', '3' if quick else '6', '-timeout', '120']
    try:
        p = subprocess.run(cmd, cwd=engine.HARNESS, env=engine.GOENV, stdout=subprocess.PIPE, stderr=subprocess.PIPE, text=True,
                           errors='replace', timeout=600)
    except subprocess.TimeoutExpired:
        return None, 'cluster run timed out'
    if p.returncode != 0:
        return None, 'cluster run died rc=%d: %s' % (p.returncode, (p.stderr or p.stdout)[-1500:])
    try:
        return json.loads(p.stdout.strip().splitlines()[-1]), None
    except Exception as ex:
        return None, 'cluster run: unreadable output (%s)' % ex


def run_replay(ctx, replay):
    """Re-run one recorded failure (a behaviour, or the cluster scenario) on the real code."""
    engine.build_go(ctx, ['raftfsm'])
    t = replay.get('trace')
    if isinstance(t, dict) and t.get('mode') == 'cluster':
        out, err = _cluster(ctx, True)
        if out is None:
            raise engine.Inconclusive(err)
        for f in out.get('failures') or []:
            ctx.failures.append({'key': f.get('key'), 'property': bool(f.get('property')), 'kind': f.get('kind'), 'detail': f.get('detail', '')[:4000],
                                 'action': 'cluster', 'step': 0, 'engine': 'raftfsm', 'replay': {'engine': 'raftfsm', 'args': [], 'trace': t}})
    else:
        rep = engine.run_driver(ctx, 'raftfsm', [t], timeout=900)
        engine.collect(ctx, rep, [t], 'raftfsm')
    ctx.cov['traces_validated_against_impl'] = 1
    ctx.cov['evaluations'] = 1
    ctx.cov['states'] = ctx.cov['transitions'] = max(1, len(t.get('steps') or [1]))


def run_slice(ctx):
    engine.build_go(ctx, ['raftfsm'])
    quick = ctx.tier == 'quick'
    cov = {}
    pool = ThreadPoolExecutor(max_workers=6)

    # ---- (a) the specification
    pos = ['g1', 'g2', 'q'] if quick else ['g1', 'g2', 'q', 't', 't3']
    neg = ['fork'] if quick else ['fork', 'stuck']
    futs = {}
    for name in pos:
        futs[name] = pool.submit(tlc.run, SPEC, MOD, CFGS[name][0], workers=WORKERS if name in ('q', 't', 't3') else 2,
                                 timeout=600 if quick else 3000, dump=name in ('g1', 'g2'))
    for name in neg:
        futs[name] = pool.submit(tlc.run, SPEC, MOD, NEG[name][0], workers=1, timeout=600)
    cl_f = pool.submit(_cluster, ctx, quick)

    traces = []
    graphs = {}
    for name in ('g1', 'g2'):
        r = futs[name].result()
        ctx.add_tlc('RaftMode/' + name, r)
        ctx.log('TLC RaftMode/%s: %s' % (name, r.summary()))
        if r.violation:
            ctx.inconclusive.append('spec invariant %s violated in RaftMode config %s (specification defect, not a verdict about the code)' % (r.violation, name))
        if not r.scratch or not r.ok:
            tlc.cleanup(r)
            continue
        g = tlc.parse_dot(os.path.join(r.scratch, 'graph.dot'))
        tlc.cleanup(r)
        n = CFGS[name][1]
        if name == 'g1':
            ps, c, w = _paths(ctx, g, n, ctx.rng, 30 if quick else None, first=[(lambda e: e[1] in ('Crash', 'Restart'), 22 if quick else 400)])
        else:
            ps, c, w = _paths(ctx, g, n, ctx.rng, 24 if quick else 500, first=[(_behind, 8 if quick else 150), (_interesting, 8 if quick else 150)])
        graphs[name] = {'states': len(g.states), 'edges': w, 'edges_replayed': c, 'paths': len(ps)}
        ctx.log('graph RaftMode/%s: %d states %d edges -> %d paths covering %d edges' % (name, len(g.states), w, len(ps), c))
        for k, p in enumerate(ps):
            traces.append(_trace(g, p, n, ctx.seed, 'raft-%s-%d-%d' % (name, ctx.seed, k), reexec=(name == 'g1' or not quick)))
    for name in pos:
        if name in ('g1', 'g2'):
            continue
        r = futs[name].result()
        ctx.add_tlc('RaftMode/' + name, r)
        ctx.log('TLC RaftMode/%s: %s' % (name, r.summary()))
        if r.violation:
            ctx.inconclusive.append('spec invariant %s violated in RaftMode config %s (specification defect, not a verdict about the code)' % (r.violation, name))
        tlc.cleanup(r)
    for name in neg:
        r = futs[name].result()
        _, expect, what = NEG[name]
        ctx.cov['tlc_runs'].append(dict(r.summary(), name='RaftMode/%s (%s: a violation of %s is EXPECTED)' % (name, what, expect), exhaustive=False))
        ctx.log('TLC RaftMode/%s (expected violation of %s): %s' % (name, expect, r.violation))
        if r.violation != expect:
            ctx.inconclusive.append('spec self-test: RaftMode config %s (%s) no longer violates %s (got %s)' % (name, what, expect, r.violation or r.error or 'no violation'))
        tlc.cleanup(r)

    # ---- (b) binding self-test: a falsified expectation must be rejected by the driver
    probe = None
    for t in traces:
        for si, s in enumerate(t['steps']):
            if s['a'] == 'W_Desc':
                probe = copy.deepcopy(t)
                probe['steps'] = probe['steps'][:si + 1]
                probe['cfg'] = dict(probe['cfg'], Reexec=False, Variants=False)
                rid = s['args'][0]
                probe['steps'][si]['post']['desc'][rid - 1] += 1   # the descriptor cannot be ahead of the block just stored
                break
        if probe:
            break
    if probe:
        rep = engine.run_driver(ctx, 'raftfsm', [probe], timeout=600)
        ok = any(f.get('key') == 'raft:store-descriptor-height' for f in rep.get('failures') or [])
        cov['binding_selftest'] = 'rejected' if ok else 'ACCEPTED'
        if not ok:
            ctx.inconclusive.append('raft slice binding self-test: a falsified block-store height was accepted by the driver')
    else:
        ctx.inconclusive.append('raft slice binding self-test: no W_Desc step in the behaviours')

    # ---- (c) replay
    if traces:
        rep = engine.run_driver(ctx, 'raftfsm', traces, timeout=1800 if quick else 7200)
        engine.collect(ctx, rep, traces, 'raftfsm')
        cnt = rep.get('counters') or {}
        cov.update({'behaviours_replayed': rep['traces'], 'steps': rep['steps'], 'state_comparisons': rep['checks'],
                    'distinct_nontrivial': sum(1 for t in traces if nontrivial(t)),
                    'crashes_injected': cnt.get('a:Crash', 0), 'crashes_inside_apply': cnt.get('crash:in-apply', 0),
                    'crashes_between_writes_of_one_step': cnt.get('crash-inside-step', 0),
                    'restarts': cnt.get('a:Restart', 0), 'snapshots_installed': cnt.get('a:InstallSnap', 0),
                    'fresh_reexecutions': cnt.get('reexecuted', 0), 'driver_wall_s': round((rep.get('extra') or {}).get('wall_s', 0), 1),
                    'writes_per_apply': (rep.get('extra') or {}).get('writes_per_apply'), 'graphs': graphs})
        if (rep.get('extra') or {}).get('stray_writes'):
            ctx.inconclusive.append('raft slice: %d durable writes by abandoned incarnations' % rep['extra']['stray_writes'])
        ctx.cov['traces_validated_against_impl'] = ctx.cov.get('traces_validated_against_impl', 0) + rep['traces']
        ctx.log('raft slice: %d behaviours (%d steps, %d crashes, %d restarts) replayed on real raft-mode nodes in %.0fs, %d failures'
                % (rep['traces'], rep['steps'], cnt.get('a:Crash', 0), cnt.get('a:Restart', 0), cov['driver_wall_s'], len(rep.get('failures') or [])))
    else:
        ctx.inconclusive.append('raft slice: no behaviours to replay')

    # ---- (d) live cluster
    out, err = cl_f.result()
    attempts = 1
    while out is not None and attempts < 3 and any((f.get('key') or '').startswith('raft:cluster-no-progress') for f in out.get('failures') or []):
        ctx.notes.append('raft slice: live cluster attempt %d made no progress (%s); run again' % (attempts, [f.get('detail') for f in out['failures']][:1]))
        out, err = _cluster(ctx, quick)
        attempts += 1
    if out is None:
        ctx.inconclusive.append('raft slice: ' + err)
    else:
        for f in out.get('failures') or []:
            ctx.failures.append({'key': f.get('key'), 'property': bool(f.get('property')), 'kind': f.get('kind'), 'detail': f.get('detail', '')[:4000],
                                 'action': 'cluster', 'step': 0, 'engine': 'raftfsm',
                                 'replay': {'engine': 'raftfsm', 'args': [], 'trace': {'mode': 'cluster', 'steps': []}}})
        evs = out.get('events') or []
        cov['cluster'] = {'nodes': 3, 'apply_events': len(evs), 'max_height': max([e['h'] for e in evs] or [0]), 'leaders': out.get('leaders'),
                          'restarted_node_events': sum(1 for e in evs if e['inc'] > 1), 'final': out.get('final'), 'attempts': attempts, 'wall_s': round(out.get('wall_s', 0), 1),
                          'failures': len(out.get('failures') or [])}
        ctx.log('raft slice: live 3-node cluster: %d Apply events up to height %d, leaders %s, %d failures (%.0fs)'
                % (len(evs), cov['cluster']['max_height'], out.get('leaders'), len(out.get('failures') or []), out.get('wall_s', 0)))
    ctx.cov['raft_slice'] = cov
    ctx.assumptions += ['raft slice: hashicorp/raft is replaced by its contract (one committed sequence, in-order delivery, re-delivery from the '
                        'snapshot index after a restart, InstallSnapshot = Restore + continue after the snapshot index); the live cluster run '
                        'exercises the real library without faults other than a clean stop of the leader',
                        'raft slice: crashes are process deaths between two durable writes (the write in front of which the FSM is stopped never happens)']
    pool.shutdown(wait=False)
