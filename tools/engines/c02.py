"""C02 every committed block is valid and carries a verifiable +2/3 commit.

BlockValidity.tla (abstract block = header fields ok/wrong + one class per commit slot; ValidateBlock /
ValidateBasic / VerifyCommit transcribed from the code, Decl = property-level definition) is model-checked
exhaustively over all blocks with a bounded number of malformations.  Every block of the explored space is then
concretised into a real types.Block with real signatures on a real chain produced by real pbft nodes and pushed
through the real validation code (harness/cmd/blockvalidity, mode mbt); a sample is proposed by a Byzantine
proposer to running honest nodes (mode byz); and real committed chains, one height of which is decided in a
round >= 1, are checked directly height by height (mode chain)."""
import copy
import os
from concurrent.futures import ThreadPoolExecutor

from .. import engine, tlc

SPEC = os.path.join(engine.VERIF, 'specs', 'blockvalidity')
MOD = 'MC_BlockValidity.tla'
DRV = 'blockvalidity'

DROP = ('res', 'out', 'm')
BYZ_CFGS = ('n4', 'h1')   # configurations in which the Byzantine proposer holds < 1/3 whoever it is


def malformations(tr):
    return sum(1 for s in tr['steps'] if s['a'].startswith('Tamper'))


def traces_of(ctx, name, r, variants):
    """One behaviour per abstract block: the tamper steps that lead to it, then the calls of the code."""
    g = tlc.parse_dot(os.path.join(r.scratch, 'graph.dot'), drop_vars=DROP)
    paths, cov, want = tlc.edge_cover_paths(g, ctx.rng, max_len=12, only=lambda e: e[1].startswith('Call'))
    out = []
    per = {}
    for k, p in enumerate(paths):
        t = tlc.path_to_steps(g, p)
        last = t['steps'][-1]['post']
        c = last['c']
        for s in t['steps']:
            s['post'] = {}
        t['init'] = {'blk': last['blk']}
        rc = (ctx.seed + len(c['id'])) % 2 if c['last'] > 0 else 0
        t['cfg'] = {'mode': 'mbt', 'Power': c['power'], 'Last': c['last'], 'N': c['n'], 'seed': ctx.seed,
                    'variants': variants, 'rc': rc, 'config': c['id'], 'hist': c.get('hist', 'none')}
        per[c['id']] = per.get(c['id'], 0) + 1
        t['id'] = '%s-%d-%d' % (c['id'], ctx.seed, per[c['id']])
        out.append(t)
    ctx.log('graph %s: %d blocks, %d edges -> %d behaviours %s (%d call edges)' % (name, len(g.states), len(g.edges), len(out), per, want))
    cov = sum(1 for t in out for s in t['steps'] if s['a'].startswith('Call'))
    ctx.cov['graph_edges_covered'] = ctx.cov.get('graph_edges_covered', 0) + cov
    ctx.cov['graph_edges_total'] = ctx.cov.get('graph_edges_total', 0) + want
    ctx.cov.setdefault('blocks_per_config', {}).update(per)
    return out


def want_of(t):
    for s in t['steps']:
        if s['a'] == 'CallValidateBlock':
            return s['args'][0]
    return None


def threshold_witnesses(traces):
    """Per power set: the tallies of well-formed commits the specification rejects for lack of power (vcPower) and
    accepts, and - where the total is == 2 (mod 3) - the tallies lying in the gap between 2*floor(T/3)+1 and
    'more than 2/3' (a threshold computed as T/3*2+1 accepts exactly those)."""
    out = {}
    for t in traces:
        w = want_of(t)
        if w not in ('vcPower', 'ok') or t['cfg']['Last'] == 0:
            continue
        b = t['init']['blk']
        if b.get('csize') != 'ok':
            continue
        p = t['cfg']['Power']
        tally = sum(p[i] for i, c in enumerate(b['slots']) if c in ('good', 'wrongRound'))
        total = sum(p)
        d = out.setdefault(t['cfg']['config'], {'power': p, 'total': total, 'rejected': set(), 'accepted': set()})
        d['rejected' if w == 'vcPower' else 'accepted'].add(tally)
    res = {}
    for k, d in out.items():
        total = d['total']
        gap = sorted(x for x in d['rejected'] if x >= (total // 3) * 2 + 1)
        res[k] = {'power': d['power'], 'total': total, 'total_mod_3': total % 3,
                  'largest_rejected_tally': max(d['rejected']) if d['rejected'] else None,
                  'smallest_accepted_tally': min(d['accepted']) if d['accepted'] else None,
                  'rejected_tallies_a_T/3*2+1_threshold_would_accept': gap}
    return res


def byz_sample(ctx, traces, n_single, n_multi):
    """Blocks to be proposed by a Byzantine proposer: the untouched block and the other blocks the specification
    accepts one per system; rejected blocks (single malformations first, then pairs) three per system - the
    proposer equivocates and sends every honest node another block."""
    pool = [t for t in traces if t['cfg']['config'] in BYZ_CFGS]
    good = [t for t in pool if malformations(t) == 0]
    single = [t for t in pool if malformations(t) == 1]
    multi = [t for t in pool if malformations(t) > 1]
    ctx.rng.shuffle(single)
    ctx.rng.shuffle(multi)
    # forged votes that do not count for the block (nil / other block, bad signature) are always in the sample,
    # alone and next to another malformation
    forged = ('nilBadSig', 'otherBlockBadSig', 'nilSignedByOther', 'otherBlockSignedByOther')

    def has_forged(t):
        return any(s['a'] == 'TamperSlot' and s['args'][1] in forged for s in t['steps'])
    must = [t for t in single if has_forged(t)][:4] + [t for t in multi if has_forged(t)][:2]
    ids = set(t['id'] for t in must)
    chosen = good + must + [t for t in single if t['id'] not in ids][:n_single] + [t for t in multi if t['id'] not in ids][:n_multi]
    out = []
    pending = {}
    for t in chosen:
        b = copy.deepcopy(t)
        b['cfg']['mode'] = 'byz'
        b['id'] = 'byz-' + t['id']
        if want_of(t) == 'ok':
            out.append(b)
            continue
        key = t['cfg']['config']
        if key not in pending:
            pending[key] = b
            b['cfg']['bundle'] = []
            out.append(b)
        else:
            c = pending[key]
            c['cfg']['bundle'].append({'id': b['id'], 'blk': b['init']['blk'], 'want': want_of(t)})
            if len(c['cfg']['bundle']) == 2:
                del pending[key]
    return out, len(chosen)


def chain_traces(ctx, quick):
    rc = 1 + ctx.seed % 3
    out = [{'id': 'chain-1111-%d' % ctx.seed, 'cfg': {'mode': 'chain', 'Power': [1, 1, 1, 1], 'heights': 3, 'rc': rc}, 'steps': []}]
    # validator-set histories: block histAt changes the set of the next height (lower / raise / add / remove)
    kinds = ['lower', 'raise', 'add', 'remove']
    for k, kind in enumerate(kinds if not quick else [kinds[ctx.seed % 4], kinds[(ctx.seed + 2) % 4]]):
        power = [7, 1, 1, 1] if kind == 'lower' else [2, 2, 2, 1]
        at = 1 + (ctx.seed + k) % 2
        out.append({'id': 'chain-%s-%d' % (kind, ctx.seed), 'steps': [],
                    'cfg': {'mode': 'chain', 'Power': power, 'heights': at + 2,
                            # (7,1,1,1): the heavy validator decides alone while it is heavy - the round change comes after
                            'rc': at + 1 if (kind == 'lower' or (ctx.seed + k) % 3) else at,
                            'hist': kind, 'histAt': at}})
    if not quick:
        out += [{'id': 'chain-1234-%d' % ctx.seed, 'cfg': {'mode': 'chain', 'Power': [1, 2, 3, 4], 'heights': 3, 'rc': 1 + (ctx.seed + 1) % 3}, 'steps': []},
                {'id': 'chain-112-%d' % ctx.seed, 'cfg': {'mode': 'chain', 'Power': [1, 1, 2], 'heights': 4, 'rc': 1 + (ctx.seed + 2) % 4}, 'steps': []},
                {'id': 'chain-2221-norc-%d' % ctx.seed, 'cfg': {'mode': 'chain', 'Power': [2, 2, 2, 1], 'heights': 3, 'rc': 0}, 'steps': []}]
    return out


COMMIT_KEYS = ('CommitVerifies', 'VerifyCommitQuorum', 'MakeCommit-panic')


def voteset_slice(ctx):
    """The commit a node STORES and a proposer EMBEDS is assembled by VoteSet.MakeCommit: simulated VoteSet.tla behaviours
    (equivocation, peer majority claims, totals = 0,1,2 mod 3, validator sets built through Update/Add/Remove histories) are
    replayed on the real types.VoteSet; whenever a majority exists the assembled commit must pass VerifyCommit, and no
    sub-quorum selection of the recorded precommits may (the two oracles of the C15 driver that concern this property)."""
    from . import c15
    engine.build_go(ctx, ['voteset'])
    quick = ctx.tier == 'quick'
    traces = []
    for name, num, depth in ([('1111', 60, 16), ('122', 50, 14), ('112', 50, 14)] if quick else
                             [('1111', 600, 18), ('122', 400, 16), ('112', 400, 16), ('11111', 300, 18), ('123', 300, 16)]):
        cfgfile, tcfg = c15.CFGS[name]
        r, ts = tlc.simulate_traces(c15.SPEC, 'MC_VoteSet.tla', cfgfile, num, depth, ctx.seed, drop_vars=c15.DROP)
        ctx.add_tlc('VoteSet/c02-sim-' + name, r, exhaustive=False)
        for k, t in enumerate(ts):
            t['cfg'] = tcfg
            t['id'] = 'c02-voteset-%s-%d-%d' % (name, ctx.seed, k)
            traces.append(t)
    for k, t in enumerate(traces):
        t['cfg'] = dict(t['cfg'], Variant=k)
    rep = engine.run_driver(ctx, 'voteset', traces)
    rep['failures'] = [f for f in (rep.get('failures') or []) if (f.get('key') or '') in COMMIT_KEYS]
    engine.collect(ctx, rep, traces, 'voteset')
    ctx.cov['voteset_slice'] = {'behaviours': rep['traces'], 'steps': rep['steps'], 'counters': rep.get('counters', {})}
    ctx.log('voteset slice: %d behaviours replayed, assembled commits re-verified' % rep['traces'])


FS_KEYS = ('tampered-block-stored', 'seen-commit-unjustified')


def fastsync_slice(ctx):
    """A block that fast sync STORES is a committed block too: behaviours of FastSync.tla (edge cover of the model-checked
    state graph of configuration q: two peers, one of them serving tampered blocks with correct linkage, reports, deliveries,
    disconnects, timeouts) are replayed on the real BlockchainReactor / BlockPool; of the driver's oracles the two that
    concern this property count here - every block in the syncing node's store is the source chain's block, and its stored
    seen-commit is a +2/3 commit for exactly that block.  (The other oracles are C13's.)"""
    from . import c13
    engine.build_go(ctx, ['fastsync'])
    quick = ctx.tier == 'quick'
    r = engine.tlc_check(ctx, c13.SPEC, c13.MOD, c13.CFGS['q'][0], name='FastSync/c02-q', dump=True, workers=4, timeout=900)
    traces = []
    if r.violation or r.error or not r.scratch:
        ctx.inconclusive.append('FastSync.tla (c02 slice): %s' % (r.violation or r.error))
    else:
        g = tlc.parse_dot(os.path.join(r.scratch, 'graph.dot'), drop_vars=c13.DROP)
        paths, cov, want = tlc.edge_cover_paths(g, ctx.rng, max_len=26, max_paths=60 if quick else 300)
        for k, p in enumerate(paths):
            t = c13.trim(tlc.path_to_steps(g, c13.settle(g, p)))
            if not t['steps']:
                continue
            t['cfg'] = c13.tcfg('q', k + ctx.seed)
            t['id'] = 'c02-fastsync-q-%d' % k
            traces.append(t)
    tlc.cleanup(r)
    if not traces:
        ctx.inconclusive.append('fast-sync slice: no behaviour to replay')
        return
    traces.sort(key=lambda t: (-c13.applied(t), t['id']))
    rep = engine.run_driver(ctx, 'fastsync', traces, timeout=3000, env={'VERIF_FS_WORKERS': '6' if quick else '8'})
    other = [f for f in (rep.get('failures') or []) if (f.get('key') or '') not in FS_KEYS]
    rep['failures'] = [f for f in (rep.get('failures') or []) if (f.get('key') or '') in FS_KEYS]
    engine.collect(ctx, rep, traces, 'fastsync')
    ctx.cov['fastsync_slice'] = {'behaviours': rep['traces'], 'steps': rep['steps'], 'blocks_applied': sum(c13.applied(t) for t in traces),
                                 'other_divergences_ignored': len(other)}
    ctx.log('fast-sync slice: %d behaviours replayed, stored blocks and seen-commits compared with the source chain' % rep['traces'])


def run(ctx, replay=None):
    if replay is not None and replay.get('engine') == 'fastsync':
        engine.build_go(ctx, ['fastsync'])
        rep = engine.run_driver(ctx, 'fastsync', [replay['trace']], env={'VERIF_FS_WORKERS': '1'})
        rep['failures'] = [f for f in (rep.get('failures') or []) if (f.get('key') or '') in FS_KEYS]
        engine.collect(ctx, rep, [replay['trace']], 'fastsync')
        ctx.cov['traces_validated_against_impl'] = 1
        ctx.cov['states'] = ctx.cov['transitions'] = max(1, len(replay['trace']['steps']))
        return
    if replay is not None and replay.get('engine') == 'voteset':
        engine.build_go(ctx, ['voteset'])
        rep = engine.run_driver(ctx, 'voteset', [replay['trace']], timeout=900)
        rep['failures'] = [f for f in (rep.get('failures') or []) if (f.get('key') or '') in COMMIT_KEYS]
        engine.collect(ctx, rep, [replay['trace']], 'voteset')
        ctx.cov['traces_validated_against_impl'] = 1
        ctx.cov['states'] = ctx.cov['transitions'] = max(1, len(replay['trace']['steps']))
        return
    if replay is not None:
        engine.build_go(ctx, [DRV])
        rep = engine.run_driver(ctx, DRV, [replay['trace']], timeout=900)
        engine.collect(ctx, rep, [replay['trace']], DRV)
        ctx.cov['traces_validated_against_impl'] = 1
        ctx.cov['states'] = ctx.cov['transitions'] = max(1, len(replay['trace']['steps']))
        ctx.sample({'replayed': replay['trace'].get('id')})
        return

    quick = ctx.tier == 'quick'
    names = ['q'] if quick else ['q', 't']
    variants = 2

    def check(name):
        return name, tlc.run(SPEC, MOD, 'MC_BlockValidity_%s.cfg' % name, workers=4, timeout=600 if quick else 3000, dump=True,
                             heap=None if quick else '6g')

    def sanity():
        # the specification must notice the repaired defect when it is put back (guards against a vacuous Decl)
        return tlc.run(SPEC, MOD, 'MC_BlockValidity_orig.cfg', workers=1, timeout=600)

    def sanity2():
        # ... and a last-commit judged against the NEXT validator set (LastValidators aliasing the changed set)
        return tlc.run(SPEC, MOD, 'MC_BlockValidity_orig2.cfg', workers=1, timeout=600)

    with ThreadPoolExecutor(max_workers=3) as ex:
        fs = [ex.submit(check, n) for n in names]
        fsan2 = ex.submit(sanity2)
        try:
            engine.build_go(ctx, [DRV])
            # real chains are checked while TLC is busy
            chains = chain_traces(ctx, quick)
            crep = engine.run_driver(ctx, DRV, chains, timeout=1200)
            engine.collect(ctx, crep, chains, DRV)
            ctx.log('chains: %s' % crep.get('counters'))
            san = sanity()
        except BaseException:
            for f in fs:
                try:
                    tlc.cleanup(f.result()[1])
                except Exception:
                    pass
            raise
        results = [f.result() for f in fs]

    traces = []
    for name, r in results:
        ctx.add_tlc('BlockValidity/' + name, r)
        ctx.log('TLC %s: %s' % (name, r.summary()))
        if r.violation:
            ctx.inconclusive.append('spec invariant %s violated in run %s (the transcribed code logic and the '
                                    'property-level definition disagree: confirm against the real code before it is a '
                                    'verdict)' % (r.violation, name))
        if r.scratch and os.path.exists(os.path.join(r.scratch, 'graph.dot')) and not r.timeout and not r.error:
            traces += traces_of(ctx, name, r, variants)
        tlc.cleanup(r)
    san2 = fsan2.result()
    ctx.cov['spec_notices_commit_judged_by_next_validator_set'] = bool(san2.violation)
    if not san2.violation:
        ctx.inconclusive.append('sanity run: with JudgeBy = "next" TLC should report CodeEqualsDecl violated, it did not (%s)' % san2.summary())
    ctx.cov['spec_notices_missing_validators_hash_check'] = bool(san.violation)
    if not san.violation:
        ctx.inconclusive.append('sanity run: with CheckVHash = FALSE TLC should report CodeEqualsDecl / '
                                'TamperAnyFieldRejected violated, it did not (%s)' % san.summary())
    if not quick:
        rcov = tlc.run(SPEC, MOD, 'MC_BlockValidity_q.cfg', workers=4, timeout=900, coverage=True)
        acts = ('TamperField', 'TamperSlot', 'CallValidateBlock', 'CallValidateBasic', 'CallVerifyCommit')
        vac = [a for a in acts if rcov.coverage.get(a, (0, 0))[1] == 0]   # (distinct, generated): the calls are self-loops
        ctx.cov['action_coverage'] = {a: list(v) for a, v in rcov.coverage.items()}
        if vac:
            ctx.cov['vacuous_actions'] = vac
            ctx.inconclusive.append('vacuous actions in BlockValidity/q: %s' % vac)
    if not traces:
        raise engine.Inconclusive('no behaviours obtained from TLC')

    tw = threshold_witnesses(traces)
    ctx.cov['threshold_boundaries'] = tw
    for k, d in tw.items():
        lo, hi, total = d['largest_rejected_tally'], d['smallest_accepted_tally'], d['total']
        if lo is None or hi is None or 3 * hi <= 2 * total or 3 * lo > 2 * total:
            ctx.inconclusive.append('power set %s of config %s: the explored commits do not include both sides of the 2/3 boundary' % (d['power'], k))
        if total % 3 == 2 and not d['rejected_tallies_a_T/3*2+1_threshold_would_accept']:
            ctx.inconclusive.append('power set %s (total == 2 mod 3) of config %s: no commit in the gap between T/3*2+1 and > 2/3' % (d['power'], k))
    if not any(d['total_mod_3'] == 2 for d in tw.values()):
        ctx.inconclusive.append('no power set with total == 2 (mod 3) explored')

    byz, n_byz_blocks = byz_sample(ctx, traces, 14 if quick else 84, 7 if quick else 88)

    # binding self-test: a corrupted expectation must be rejected by the driver
    probes = []
    for t in traces:
        for si, st in enumerate(t['steps']):
            if st['a'] == 'CallValidateBlock' and st['args'][0] == 'ok' and not probes:
                p = copy.deepcopy(t)
                p['steps'][si]['args'][0] = 'appHash'
                probes.append(p)
            if st['a'] == 'CallVerifyCommit' and st['args'][0] == 'vcSig' and len(probes) == 1:
                p = copy.deepcopy(t)
                p['steps'][si]['args'][0] = 'ok'
                probes.append(p)
        if len(probes) == 2:
            break
    ok = len(probes) == 2
    for p in probes:
        rep = engine.run_driver(ctx, DRV, [p], timeout=300)
        ok = ok and any(f.get('property') for f in rep.get('failures') or [])
    ctx.cov['binding_selftest'] = 'rejected' if ok else 'ACCEPTED'
    if not ok:
        ctx.inconclusive.append('binding self-test: a corrupted expectation was accepted by the driver')

    # the replay of the blocks is split over three driver processes (each builds its own ground chains)
    traces.sort(key=lambda t: (t['cfg']['config'], t['id']))
    nchunk = 3
    size = (len(traces) + nchunk - 1) // nchunk
    chunks = [traces[i:i + size] for i in range(0, len(traces), size)]
    with ThreadPoolExecutor(max_workers=nchunk) as ex:
        reps = list(ex.map(lambda ch: engine.run_driver(ctx, DRV, ch, timeout=3000), chunks))
    rep = {'traces': 0, 'steps': 0, 'checks': 0, 'counters': {}, 'extra': {'result_classes': []}}
    for ch, r in zip(chunks, reps):
        engine.collect(ctx, r, ch, DRV)
        for k in ('traces', 'steps', 'checks'):
            rep[k] += r.get(k, 0)
        for k, v in (r.get('counters') or {}).items():
            rep['counters'][k] = rep['counters'].get(k, 0) + v
        rep['extra']['result_classes'] = sorted(set(rep['extra']['result_classes']) | set((r.get('extra') or {}).get('result_classes') or []))
    ctx.log('mbt: %d behaviours, %d checks, counters %s' % (rep['traces'], rep['checks'], rep.get('counters')))
    brep = engine.run_driver(ctx, DRV, byz, timeout=3000)
    engine.collect(ctx, brep, byz, DRV)
    ctx.log('byz: %d blocks in %d systems, counters %s' % (n_byz_blocks, brep['traces'], brep.get('counters')))

    voteset_slice(ctx)
    fastsync_slice(ctx)
    ctx.cov['traces_validated_against_impl'] = rep['traces'] + brep['traces'] + crep['traces']
    ctx.cov['evaluations'] = rep['checks'] + brep['checks'] + crep['checks']
    ctx.cov['impl_checks'] = {'mbt': rep['checks'], 'byz': brep['checks'], 'chain': crep['checks']}
    ctx.cov['distinct_nontrivial'] = sum(1 for t in traces if malformations(t) > 0)
    ctx.cov['rule'] = ('one behaviour per state of the TLC state graph = one abstract block (distinct by construction); '
                       'non-trivial = carries at least one malformation; each is concretised %d times with different '
                       'concrete wrong values / keys / labels' % variants)
    ctx.cov['byzantine_proposals'] = n_byz_blocks
    ctx.cov['byzantine_systems'] = brep['traces']
    ctx.cov['real_chains_checked'] = crep['traces']
    ctx.cov['driver_counters'] = {'mbt': rep.get('counters', {}), 'byz': brep.get('counters', {}), 'chain': crep.get('counters', {})}
    ctx.cov['result_classes_observed'] = (rep.get('extra') or {}).get('result_classes')
    ctx.cov['exhaustive'] = True
    for t in traces[:2] + byz[:1]:
        ctx.sample({'id': t['id'], 'cfg': t['cfg'], 'actions': ['%s%s' % (s['a'], s['args']) for s in t['steps']]})
    ctx.assumptions += [
        'ed25519 signatures are unforgeable; sign-bytes identify (chain id, height, round, type, block id)',
        'hash functions are collision free (a wrong hash never equals the right one)',
        'small scope: 2-5 validators, equal and unequal powers with totals == 0, 1 and 2 (mod 3), <= 2 (3) simultaneous malformations from the honest block plus '
        'every combination of slot classes over the whole commit',
        'block time is not part of the property (the code does not check it: TODO in Block.ValidateBasic)',
        'validator-set histories: one change (power lowered / raised, validator added / removed, applied in EndBlock the way '
        'plugin.AdminOp.updateValidators does) at one height per chain; the admin transaction path itself is covered by C14']
