"""C06 crash-atomic commit.

(a) CommitPipeline.tla is model-checked exhaustively by TLC (crash between any two durable writes, crashes
    during recovery, recovery transcribed from the restart path of the code);
(b) fault enumeration on a REAL node subprocess (harness/cmd/crashnode = cmd/genesis built with -tags verif):
    for every durable write k issued while a block of each kind is being decided and committed the process
    is killed (os.Exit(137) inside gemmill/verifhook) immediately before the write, restarted without
    failpoints (thorough: also killed a second time during recovery), must commit further blocks, and is then
    compared through RPC and by opening its databases offline, including a re-execution of the whole chain on
    a fresh node directory;
(T) the durable-write sequence of the uncrashed runs must be a behaviour of CommitPipeline.tla (TLC trace
    validation)."""
import binascii
import json
import os
import re
import shutil
import signal
import socket
import subprocess
import tempfile
import time
import urllib.request
from concurrent.futures import ThreadPoolExecutor

from .. import engine, tlc

LEVEL = 'fault_enumeration'
SPEC = os.path.join(engine.VERIF, 'specs', 'commitpipeline')
KINDS = ['evm', 'call', 'kv', 'admin', 'empty']
TIMEOUT_COMMIT_MS = 800


class Flaky(Exception):
    """Timing / environment trouble while driving a node: never a verdict about the property."""


def bin_path(name):
    return os.path.join(engine.HARNESS, engine.BIN, name)


def free_ports(n):
    socks, ports = [], []
    for _ in range(n):
        s = socket.socket()
        s.bind(('127.0.0.1', 0))
        socks.append(s)
        ports.append(s.getsockname()[1])
    for s in socks:
        s.close()
    return ports


def drv(args, timeout=120):
    p = subprocess.run([bin_path('crashdrv')] + [str(a) for a in args], stdout=subprocess.PIPE, stderr=subprocess.PIPE,
                       text=True, timeout=timeout, env=dict(engine.GOENV, GOMAXPROCS='2'))
    if p.returncode != 0:
        raise Flaky('crashdrv %s rc=%d: %s' % (args[0], p.returncode, (p.stderr or p.stdout)[-1500:]))
    try:
        return json.loads(p.stdout.strip().splitlines()[-1])
    except Exception as e:
        raise Flaky('crashdrv %s: unreadable output (%s): %s' % (args[0], e, p.stdout[-500:]))


# ---------------------------------------------------------------------------------------------
# durable-write log

def read_dlog(path):
    """[(n, site, key-bytes)] and the crash line (n, site) if the process was killed by the failpoint."""
    ev, crash = [], None
    try:
        with open(path) as f:
            for line in f:
                p = line.rstrip('\n').split(' ')
                if p[0] == 'CRASH':
                    crash = (int(p[2]), p[3])
                    continue
                if len(p) < 2 or not p[0].isdigit():
                    continue
                key = b''
                if len(p) > 2 and p[2]:
                    try:
                        key = binascii.unhexlify(p[2])
                    except Exception:
                        key = b'?'
                ev.append((int(p[0]), p[1], key))
    except FileNotFoundError:
        pass
    return ev, crash


def key_class(site, key):
    """Stable class of the key a write goes to (heights and paths removed)."""
    k = key.decode('latin1')
    if site.startswith('autofile'):
        return 'wal' if 'cs.wal' in k else os.path.basename(k)
    if site.startswith('WriteFileAtomic'):
        # (the hook records at most 48 bytes of the path: runtime directories are kept short)
        return 'signer' if '/priv_val' in k else os.path.basename(k)
    if site.startswith('gldb') or site.startswith('ethdb'):
        if k == '':
            return ''
        m = re.match(r'^(H|P|C|SC):\d+', k)
        if m:
            return m.group(1)
        for name in ('blockStore', 'stateKey', 'stateIntermediateKey', 'lastblock', 'lastreceipts', 'stateKey.proposer',
                     'stateIntermediateKey.proposer'):
            if k == name:
                return name
        if k.startswith('receipts-'):
            return 'receipt'
        if k.startswith('kvstore-'):
            return 'kv'
        return 'other'
    return 'other'


def site_label(site, key):
    c = key_class(site, key)
    return site + (':' + c if c else '')


def quiescent(ev):
    """True when the last writes are  stateKey, wal(#HEIGHT), wal(NewHeight step): a commit has just finished
    and the node sits in its timeout_commit pause."""
    if len(ev) < 3:
        return False
    a, b, c = ev[-3], ev[-2], ev[-1]
    return key_class(a[1], a[2]) == 'stateKey' and key_class(b[1], b[2]) == 'wal' and key_class(c[1], c[2]) == 'wal'


# ---------------------------------------------------------------------------------------------
# node subprocess

class Node:
    def __init__(self, rt):
        self.rt = rt                      # runtime dir (config.toml, genesis.json, priv_validator.json, data/)
        self.work = rt + '.w'             # cwd of the process: output.log, audit.log, durable logs
        os.makedirs(self.work, exist_ok=True)
        self.proc = None
        self.rpc = None
        self.dlog = None
        self.run_no = 0
        self._log = {'off': 0, 'ev': [], 'crash': None}

    def configure(self):
        p2p, rpc = free_ports(2)
        path = os.path.join(self.rt, 'config.toml')
        lines = [l for l in open(path).read().splitlines()
                 if not re.match(r'^(p2p_laddr|rpc_laddr|timeout_commit|pex_reactor|skip_timeout_commit)\s*=', l)]
        lines += ['p2p_laddr = "tcp://127.0.0.1:%d"' % p2p, 'rpc_laddr = "tcp://127.0.0.1:%d"' % rpc,
                  'timeout_commit = %d' % TIMEOUT_COMMIT_MS, 'pex_reactor = false']
        with open(path, 'w') as f:
            f.write('\n'.join(lines) + '\n')
        self.rpc = '127.0.0.1:%d' % rpc

    def start(self, crash_at=0, mark=None, site=None):
        self.configure()
        self.run_no += 1
        self.dlog = os.path.join(self.work, 'dur-%d.log' % self.run_no)
        if os.path.exists(self.dlog):
            os.unlink(self.dlog)
        self._log = {'off': 0, 'ev': [], 'crash': None}
        env = dict(os.environ, VERIF_DURABLE_LOG=self.dlog, GOMAXPROCS='2')
        for k in ('VERIF_CRASH_AT', 'VERIF_CRASH_MARK', 'VERIF_CRASH_SITE'):
            env.pop(k, None)
        if crash_at:
            env['VERIF_CRASH_AT'] = str(crash_at)
            if mark:
                env['VERIF_CRASH_MARK'] = mark
            if site:
                env['VERIF_CRASH_SITE'] = site
        out = open(os.path.join(self.work, 'run-%d.out' % self.run_no), 'w')
        self.proc = subprocess.Popen([bin_path('crashnode'), 'run', '--runtime', self.rt], cwd=self.work, env=env,
                                     stdout=out, stderr=subprocess.STDOUT, start_new_session=True)
        out.close()
        return self.proc

    def alive(self):
        return self.proc is not None and self.proc.poll() is None

    def kill(self):
        if self.proc is not None:
            try:
                os.killpg(self.proc.pid, signal.SIGKILL)
            except (ProcessLookupError, PermissionError):
                pass
            try:
                self.proc.wait(timeout=10)
            except Exception:
                pass

    def stop(self, timeout=15):
        """Graceful stop (SIGTERM -> TrapSignal -> node.Stop)."""
        if not self.alive():
            return
        try:
            os.killpg(self.proc.pid, signal.SIGTERM)
        except ProcessLookupError:
            return
        try:
            self.proc.wait(timeout=timeout)
        except subprocess.TimeoutExpired:
            self.kill()

    def events(self):
        """Incremental read of the durable-write log of the current run -> ([(n, site, key)], crash)."""
        st = self._log
        try:
            with open(self.dlog, 'rb') as f:
                f.seek(st['off'])
                data = f.read()
        except FileNotFoundError:
            return list(st['ev']), st['crash']
        nl = data.rfind(b'\n')
        if nl >= 0:
            st['off'] += nl + 1
            for line in data[:nl].decode('latin1').split('\n'):
                p = line.split(' ')
                if p[0] == 'CRASH':
                    st['crash'] = (int(p[2]), p[3])
                elif len(p) >= 2 and p[0].isdigit():
                    key = b''
                    if len(p) > 2 and p[2]:
                        try:
                            key = binascii.unhexlify(p[2])
                        except Exception:
                            key = b'?'
                    st['ev'].append((int(p[0]), p[1], key))
        return list(st['ev']), st['crash']

    def status_height(self):
        try:
            with urllib.request.urlopen('http://%s/status' % self.rpc, timeout=2) as r:
                return json.load(r)['result']['latest_block_height']
        except Exception:
            return None

    def output_tail(self, n=4000):
        try:
            with open(os.path.join(self.work, 'output.log'), errors='replace') as f:
                return f.read()[-n:]
        except OSError:
            return ''

    def wait_quiescent(self, after_n=0, timeout=30.0, min_commits=1):
        """Wait until at least min_commits state saves happened after log position after_n and the node is in
        the pause after a commit.  Returns the event list.  Raises Flaky on timeout / process death."""
        t0 = time.time()
        while time.time() - t0 < timeout:
            ev, _ = self.events()
            tail = [e for e in ev if e[0] > after_n]
            commits = sum(1 for e in tail if key_class(e[1], e[2]) == 'stateKey')
            if commits >= min_commits and quiescent(ev):
                return ev
            if not self.alive():
                raise NodeDied('node exited rc=%s while waiting for a commit' % self.proc.returncode)
            time.sleep(0.03)
        raise Flaky('no quiescent point within %.0fs' % timeout)


class NodeDied(Exception):
    pass


# ---------------------------------------------------------------------------------------------
# WAL lines (the k-th autofile write on the WAL is the k-th line of the file: WriteLine + Flush per line)

def wal_lines(rt):
    d = os.path.join(rt, 'data', 'cs.wal')
    names = sorted(n for n in os.listdir(d) if n.startswith('wal.')) + ['wal'] if os.path.isdir(d) else []
    out = []
    for n in names:
        p = os.path.join(d, n)
        if os.path.exists(p):
            with open(p, errors='replace') as f:
                out += [l for l in f.read().split('\n') if l != '']
    return out


_STEP = {'RoundStepNewHeight': 'NewHeight', 'RoundStepNewRound': 'NewRound', 'RoundStepPropose': 'Propose',
         'RoundStepPrevote': 'Prevote', 'RoundStepPrevoteWait': 'PrevoteWait', 'RoundStepPrecommit': 'Precommit',
         'RoundStepPrecommitWait': 'PrecommitWait', 'RoundStepCommit': 'Commit'}


def classify_wal(line):
    """-> (event name, height, round)"""
    if line.startswith('#HEIGHT:'):
        return ('WalHeight', int(line.split(':')[1]), 0)
    try:
        m = json.loads(line)['msg']
    except Exception:
        return ('WalTorn', 0, 0)
    t, body = m[0], m[1]
    if t == 1:
        return ('WalStep' + _STEP.get(body.get('step'), 'Other'), body.get('height', 0), body.get('round', 0))
    if t == 3:
        return ('WalTimeout', body.get('height', 0), body.get('round', 0))
    if t == 2:
        inner = body.get('msg') or [0, {}]
        if inner[0] == 17:
            pr = inner[1].get('Proposal', {})
            return ('WalProposal', pr.get('height', 0), pr.get('round', 0))
        if inner[0] == 19:
            return ('WalPart', inner[1].get('Height', 0), inner[1].get('Round', 0))
        if inner[0] == 20:
            v = inner[1].get('Vote', {})
            return ('WalPrevote' if v.get('type') == 1 else 'WalPrecommit', v.get('height', 0), v.get('round', 0))
    return ('WalOther', 0, 0)


# ---------------------------------------------------------------------------------------------
# reference (uncrashed) run

def copy_rt(src, dst):
    shutil.rmtree(dst, ignore_errors=True)
    shutil.copytree(src, dst)


def tx_effects(script, included):
    """Expected application facts after the given transactions (script records, in block order) were applied
    exactly once each."""
    exp = {'nonces': {n: 0 for n in script['accounts']}, 'counter': 0, 'kv': {}, 'kv_history': {}, 'power': None,
           'contract': False}
    for b, t in included:
        exp['nonces'][t['from']] += 1
        if t['type'] == 'create':
            exp['contract'] = True
        elif t['type'] == 'call':
            exp['counter'] += 1
        elif t['type'] == 'kv':
            exp['kv'][t['key']] = t['value']
            exp['kv_history'].setdefault(t['key'], []).append(t['hash'])
        elif t['type'] == 'admin':
            exp['power'] = b['power']
    return exp


def included_txs(script, blocks):
    """[(batch, txrec)] in chain order + multiplicity map of script transactions found in the given blocks."""
    by_hash = {}
    for b in script['batches']:
        for t in b['txs']:
            by_hash[t['hash']] = (b, t)
            by_hash[t['raw'].lower()] = (b, t)
    seq, count = [], {}
    for blk in blocks:
        for h in blk.get('txs') or []:
            h = h.replace('ex:', '').lower()
            if h in by_hash:
                seq.append(by_hash[h])
                hh = by_hash[h][1]['hash']
                count[hh] = count.get(hh, 0) + 1
    return seq, count


def rpc_get(node, path, timeout=5):
    with urllib.request.urlopen('http://%s/%s' % (node.rpc, path), timeout=timeout) as r:
        rep = json.load(r)
    if rep.get('error'):
        raise Flaky('rpc %s: %s' % (path, rep['error']))
    return rep['result']


def rpc_blocks(node, first=1):
    """Every block the live node serves: same record shape as crashdrv offline (txs = raw hex)."""
    out = []
    try:
        top = rpc_get(node, 'last_height')['last_height']
        for h in range(first, top + 1):
            r = rpc_get(node, 'block?height=%d' % h)
            hd = r['block']['header']
            out.append({'height': hd['height'], 'hash': r['block_meta']['hash'].lower(), 'app_hash': hd['app_hash'].lower(),
                        'receipts_hash': hd['recepits_hash'].lower(), 'validators_hash': hd['validators_hash'].lower(),
                        'last_block_hash': hd['last_block_id']['hash'].lower(), 'num_txs': hd['num_txs'],
                        'txs': [t.lower() for t in r['block']['data']['txs']] + ['ex:' + t.lower() for t in r['block']['data']['extxs']]})
    except Flaky:
        raise
    except Exception as e:
        raise Flaky('reading blocks through RPC: %s' % e)
    return out


def submit_batch(node, b):
    """Higher nonces first: the pool promotes an account's queued transactions only when the transaction with
    the account's current nonce arrives, so this order puts the whole batch into one block."""
    for t in reversed(b['txs']):
        req = json.dumps({'jsonrpc': '2.0', 'id': '', 'method': 'broadcast_tx_async', 'params': [t['raw'].upper()]})
        try:
            with urllib.request.urlopen(urllib.request.Request('http://%s/' % node.rpc, data=req.encode()), timeout=5) as r:
                rep = json.load(r)
        except Exception as e:
            raise Flaky('broadcast_tx_async failed: %s' % e)
        if rep.get('error'):
            raise Flaky('transaction rejected by the node: %s' % rep['error'])


class Reference:
    """Runs the node without crashes through every block kind; keeps a stopped-node snapshot before each kind,
    the durable-write segment (from the pause before the block to the pause after it) of each kind, and the
    trace events for TLC."""

    def __init__(self, ctx, base, seed):
        self.ctx, self.base, self.seed = ctx, base, seed
        self.snap = {}        # kind index -> runtime dir snapshot taken BEFORE the kind's block
        self.segment = {}     # kind index -> [(n, site, key)]
        self.labels = {}      # kind index -> [label of write k]
        self.trace = {}       # kind index -> [event dicts] for trace validation
        self.script = None
        self.script_path = os.path.join(base, 'script.json')
        self.final_obs = None

    def run(self):
        rt = os.path.join(self.base, 'ref')
        p = subprocess.run([bin_path('crashnode'), 'init', '--runtime', rt, '--chainid', 'c06-%d' % self.seed],
                           cwd=self.base, stdout=subprocess.PIPE, stderr=subprocess.STDOUT, text=True)
        if not os.path.exists(os.path.join(rt, 'priv_validator.json')):
            raise engine.Inconclusive('node init failed: ' + p.stdout[-800:])
        self.script = drv(['gentx', '-privval', os.path.join(rt, 'priv_validator.json'), '-seed', self.seed])
        with open(self.script_path, 'w') as f:
            json.dump(self.script, f)
        node = Node(rt)
        try:
            for i, b in enumerate(self.script['batches']):
                copy_rt(rt, os.path.join(self.base, 'snap-%d' % i))
                self.snap[i] = os.path.join(self.base, 'snap-%d' % i)
                nwal = len(wal_lines(rt)) if os.path.isdir(os.path.join(rt, 'data', 'cs.wal')) else 0
                node.start()
                ev = node.wait_quiescent(timeout=40)
                pos = ev[-1][0]
                submit_batch(node, b)
                ev = node.wait_quiescent(after_n=pos, timeout=40)
                seg = [e for e in ev if e[0] > pos]
                node.stop()
                if node.proc.returncode is None:
                    raise Flaky('reference node did not stop')
                ev_all, _ = node.events()
                self.segment[i] = seg
                self.labels[i] = labels_of(seg)
                self.trace[i] = trace_events(ev_all, wal_lines(rt)[nwal:])
            self.final_rt = rt
            self.final_off = drv(['offline', '-runtime', rt, '-script', self.script_path, '-replay', '-port', free_ports(1)[0]])
        finally:
            node.kill()
        return self


def labels_of(seg):
    """label of each write in a block cycle: site:keyclass with an occurrence number when the label repeats."""
    total = {}
    for e in seg:
        l = site_label(e[1], e[2])
        total[l] = total.get(l, 0) + 1
    seen, out = {}, []
    for e in seg:
        l = site_label(e[1], e[2])
        seen[l] = seen.get(l, 0) + 1
        out.append('%s#%d' % (l, seen[l]) if total[l] > 1 else l)
    return out


def trace_events(ev, wal):
    """Durable-write log of one process run -> spec events.  WAL writes get the class of the line written."""
    out, wi = [], 0
    nwal = sum(1 for e in ev if key_class(e[1], e[2]) == 'wal')
    aligned = nwal == len(wal)
    for n, site, key in ev:
        c = key_class(site, key)
        d = {'site': site, 'cls': c, 'h': 0}
        if c == 'wal':
            if aligned:
                name, h, r = classify_wal(wal[wi])
                d.update(ev=name, h=h, r=r)
            else:
                d.update(ev='WalUnknown')
            wi += 1
        elif c in ('H', 'P', 'C', 'SC'):
            m = re.match(r'^[A-Z]+:(\d+)', key.decode('latin1'))
            d.update(ev='Bs' + c, h=int(m.group(1)))
        else:
            d['ev'] = site_label(site, key)
        out.append(d)
    return out


# ---------------------------------------------------------------------------------------------
# one crash point

def cycle_label(ev, crash_n):
    """Label of the write the process died before, from its own log: position inside the current block cycle
    (writes since the last 'stateKey, wal, wal' pause) -> (label, index in cycle)."""
    upto = [e for e in ev if e[0] < crash_n]
    start = 0
    for i in range(len(upto) - 2):
        if quiescent(upto[:i + 3]):
            start = i + 3
    return start, len(upto) - start + 1


def label_for(seg, ref_labels):
    """Label of the last write of seg (the one the process died before), numbered like the reference cycle."""
    base = site_label(seg[-1][1], seg[-1][2])
    occ = sum(1 for e in seg if site_label(e[1], e[2]) == base)
    multi = sum(1 for l in ref_labels if re.sub(r'#\d+$', '', l) == base) > 1
    return '%s#%d' % (base, occ) if multi else base


def observe_live(node, script, script_path):
    """Blocks, then application facts, then the blocks committed meanwhile: the facts are exact as long as no
    scripted transaction sits in a block committed while they were being read."""
    for _ in range(4):
        blocks = rpc_blocks(node)
        live = drv(['observe', '-rpc', node.rpc, '-script', script_path, '-from', 0])
        if live.get('error'):
            return live
        more = rpc_blocks(node, first=len(blocks) + 1)
        if not included_txs(script, more)[0]:
            live['blocks'] = blocks + more
            live['facts_height'] = len(blocks)
            return live
        time.sleep(0.2)
    raise Flaky('live node would not hold still for an observation')


def crash_job(ref, ki, k, j, workdir, keep=False):
    """Kill the node before the k-th durable write after the pause preceding the block of kind ki (and, if j, a
    second time before the j-th durable write of the restarted process); restart without failpoints; observe.
    Returns a dict with 'failures': [(key, detail)], 'label', measurements.  Raises Flaky for timing trouble."""
    script = ref.script
    b = script['batches'][ki]
    rt = os.path.join(workdir, 'rt')
    copy_rt(ref.snap[ki], rt)
    node = Node(rt)
    res = {'kind': b['kind'], 'ki': ki, 'k': k, 'j': j, 'failures': [], 'label': None, 'label2': None}
    t0 = time.time()
    try:
        mark = os.path.join(node.work, 'armed')
        node.start(crash_at=k, mark=mark)
        try:
            ev = node.wait_quiescent(timeout=40)
        except NodeDied as e:
            raise Flaky('node died before arming: %s' % e)
        submit_batch(node, b)
        n_arm = len(node.events()[0])
        with open(mark, 'w') as f:
            f.write('x')
        try:
            node.proc.wait(timeout=40)
        except subprocess.TimeoutExpired:
            raise Flaky('armed node did not reach durable write %d' % k)
        ev, crash = node.events()
        if node.proc.returncode != 137 or crash is None:
            raise Flaky('armed node exited rc=%s without hitting the failpoint' % node.proc.returncode)
        if len([e for e in ev if e[0] < crash[0]]) - n_arm != k - 1 or not quiescent(ev[:n_arm]):
            raise Flaky('arming raced with the node (writes between pause detection and arming)')
        seg = ev[n_arm:]
        res['label'] = label_for(seg, ref.labels[ki])
        res['aligned'] = [site_label(e[1], e[2]) for e in seg] == [re.sub(r'#\d+$', '', l) for l in ref.labels[ki][:k]]
        if not res['aligned']:
            res['seg'] = [site_label(e[1], e[2]) for e in seg]
        pre = [drv(['offline', '-runtime', rt, '-script', ref.script_path])]
        res['pre_store'] = pre[0].get('store_height')

        # restart; optionally die once more during recovery
        if j:
            node.start(crash_at=j)
            try:
                node.proc.wait(timeout=45)
            except subprocess.TimeoutExpired:
                raise Flaky('recovering node did not reach durable write %d' % j)
            ev2, crash2 = node.events()
            if node.proc.returncode == 137 and crash2 is not None:
                res['label2'] = site_label(crash2[1], next((e[2] for e in ev2 if e[0] == crash2[0]), b''))
                pre.append(drv(['offline', '-runtime', rt, '-script', ref.script_path]))
            else:
                res['failures'].append(('restart-exit', 'restarted node (armed to die at write %d of recovery) exited rc=%s '
                                        'by itself: %s' % (j, node.proc.returncode, node.output_tail(1500))))
                return res
        node.start()
        try:
            node.wait_quiescent(timeout=60, min_commits=2)
        except NodeDied as e:
            res['failures'].append(('restart-exit', 'node restarted after the crash exits instead of recovering: %s ... %s'
                                    % (e, node.output_tail(1800))))
            return res
        except Flaky:
            res['failures'].append(('no-progress', 'restarted node did not commit 2 further blocks within 60 s: %s'
                                    % node.output_tail(1500)))
            return res
        live = observe_live(node, script, ref.script_path)
        ev3 = node.wait_quiescent(timeout=30, min_commits=2)
        node.stop()
        ev4, _ = node.events()
        if not quiescent(ev4):
            # stopped in the middle of a commit: let it recover once more and stop at a pause
            node.start()
            node.wait_quiescent(timeout=60, min_commits=1)
            node.stop()
            if not quiescent(node.events()[0]):
                raise Flaky('could not stop the node at a pause between blocks')
        off = drv(['offline', '-runtime', rt, '-script', ref.script_path, '-replay', '-port', free_ports(1)[0]], timeout=180)
        res['failures'] += judge(script, ki, pre, live, off)
        res['height'] = off.get('store_height')
        res['wall'] = round(time.time() - t0, 1)
        return res
    finally:
        node.kill()
        if not keep:
            shutil.rmtree(workdir, ignore_errors=True)
            shutil.rmtree(workdir + '.w', ignore_errors=True)


def judge(script, ki, pre, live, off):
    """The property, evaluated on what was observed.  -> [(key suffix, detail)]"""
    f = []
    if off.get('panic'):
        return [('offline-open', 'databases of the recovered node cannot be opened: %s' % off['panic'])]
    st, app, sh = off.get('state') or {}, off.get('app') or {}, off.get('store_height')
    # 1. one height, one set of hashes
    if not (sh == st.get('height') == app.get('height')):
        f.append(('heights', 'after recovery and a clean stop: block store height %s, state height %s, application height %s'
                  % (sh, st.get('height'), app.get('height'))))
    if st.get('app_hash') != app.get('app_hash'):
        f.append(('apphash', 'state.AppHash %s != application AppHash %s' % (st.get('app_hash'), app.get('app_hash'))))
    if off.get('trie_err'):
        f.append(('trie', 'application state root is not readable: %s' % off['trie_err']))
    blocks = off.get('blocks') or []
    for i, blk in enumerate(blocks):
        if blk.get('err'):
            f.append(('block-unreadable', 'block %s: %s' % (blk['height'], blk['err'])))
        elif i > 0 and not blocks[i - 1].get('err') and blk['last_block_hash'] != blocks[i - 1]['hash']:
            f.append(('chain', 'block %d does not link to block %d' % (blk['height'], blk['height'] - 1)))
    if blocks and not blocks[-1].get('err') and st.get('last_block_hash') != blocks[-1]['hash']:
        f.append(('state-blockid', 'state.LastBlockID %s is not the hash of the last stored block %s'
                  % (st.get('last_block_hash'), blocks[-1]['hash'])))
    # 2. nothing readable before the crash(es) is lost or changed
    for p in pre:
        for pb in p.get('blocks') or []:
            if pb.get('err'):
                f.append(('visible-incomplete', 'at the moment of the crash the block store descriptor made block %s visible '
                          'but the block cannot be read: %s' % (pb.get('height'), pb['err'])))
                continue
            h = pb['height']
            nb = blocks[h - 1] if h <= len(blocks) else None
            if nb is None or nb.get('hash') != pb['hash']:
                f.append(('block-changed', 'block %d readable before the crash (hash %s) is now %s'
                          % (h, pb['hash'], nb and nb.get('hash'))))
    # 3. every transaction of every committed block applied exactly once
    seq, count = included_txs(script, blocks)
    dup = [h for h, c in count.items() if c > 1]
    if dup:
        f.append(('tx-twice', 'transaction(s) included in more than one block: %s' % dup[:3]))
    for bi in range(ki):
        for t in script['batches'][bi]['txs']:
            if count.get(t['hash'], 0) != 1:
                f.append(('tx-lost', 'transaction %s committed before the crash is no longer in the chain' % t['hash']))
    exp = tx_effects(script, seq)
    for src_name, src in (('offline', off), ('rpc', live)):
        if src.get('error'):
            f.append(('rpc', 'observation through RPC failed: %s' % src['error']))
            continue
        lim = len(src.get('blocks') or [])
        e = exp if src is off else tx_effects(script, included_txs(script, (src.get('blocks') or []))[0])
        got_n = {n: v for n, v in (src.get('nonces') or {}).items()}
        if got_n != e['nonces']:
            f.append(('nonce', '%s: nonces %s, expected %s (each committed transaction exactly once)' % (src_name, got_n, e['nonces'])))
        if e['contract'] and src.get('counter') != e['counter']:
            f.append(('storage', '%s: counter slot %s, expected %s' % (src_name, src.get('counter'), e['counter'])))
        got_kv = {k: v for k, v in (src.get('kv') or {}).items() if v is not None or k in e['kv']}
        if got_kv != e['kv']:
            f.append(('kv', '%s: kv store %s, expected %s' % (src_name, got_kv, e['kv'])))
        miss = [h for (b, t) in (seq if src is off else included_txs(script, src.get('blocks') or [])[0])
                if t['type'] != 'kv' and not (src.get('receipts') or {}).get(t['hash'])]
        if miss:
            f.append(('receipt', '%s: no receipt for committed transaction(s) %s' % (src_name, miss[:3])))
        vals = src.get('validators') if src is live else st.get('validators')
        if e['power'] is not None and vals is not None and list(vals.values()) != [e['power']]:
            f.append(('validators', '%s: validator power %s, expected %s' % (src_name, vals, e['power'])))
    hist = off.get('kv_history')
    if hist is not None:
        got_h = {k: v for k, v in hist.items() if v or k in exp['kv_history']}
        if got_h != exp['kv_history']:
            f.append(('kv-history', 'kv update history %s, expected %s' % (got_h, exp['kv_history'])))
    # 4. re-execution of the recovered chain on a fresh node reproduces every recorded hash
    rp = off.get('replay') or {}
    if not rp.get('ok'):
        f.append(('replay', 're-executing the recovered chain on a fresh node fails at height %s: %s'
                  % (rp.get('fail_height'), rp.get('err') or rp.get('panic'))))
    else:
        for a, bname in (('app_hash', 'app_hash'), ('receipts_hash', 'receipts_hash'), ('validators_hash', 'validators_hash')):
            if rp.get(a) != st.get(bname):
                f.append(('replay-' + a, 'fresh re-execution ends with %s %s, recovered node has %s' % (a, rp.get(a), st.get(bname))))
    return f


# ---------------------------------------------------------------------------------------------
# (T) trace validation with TLC

# the alphabet of Trace_CommitPipeline.tla; any other durable write is passed as "Other" (no effect in the spec)
# and reported as unmodelled -- the crash enumeration still kills the node before it and judges the outcome
KNOWN_EVENTS = {'WalTimeout', 'WriteFileAtomic.bak:signer', 'WriteFileAtomic.new:signer', 'WriteFileAtomic.rename:signer',
                'WalStepPropose', 'WalProposal', 'WalPart', 'WalStepPrevote', 'WalPrevote', 'WalStepPrecommit', 'WalPrecommit',
                'WalStepCommit', 'BsH', 'BsP', 'BsC', 'BsSC', 'gldb.SetSync:blockStore', 'gldb.SetSync', 'gldb.BatchWrite',
                'gldb.SetSync:stateIntermediateKey', 'ethdb.BatchWrite', 'gldb.SetSync:lastreceipts', 'gldb.SetSync:lastblock',
                'gldb.SetSync:stateKey', 'gldb.SetSync:stateKey.proposer', 'gldb.SetSync:stateIntermediateKey.proposer',
                'WalHeight', 'WalStepNewHeight', 'Restart'}
# writes whose relative order IS the mechanism named by the property (block -> intermediate state -> application
# commit -> state; descriptor last in SaveBlock)
ORDER_CRITICAL = {'BsH', 'BsP', 'BsC', 'BsSC', 'gldb.SetSync:blockStore', 'gldb.SetSync:stateIntermediateKey', 'ethdb.BatchWrite',
                  'gldb.SetSync:lastreceipts', 'gldb.SetSync:lastblock', 'gldb.SetSync:stateKey'}


def build_trace(ref, kv_heights, val_heights=()):
    out = []
    ref.unmodelled = set()
    for i in sorted(ref.trace):
        if out:
            out.append({'ev': 'Restart', 'h': 0})
        for e in ref.trace[i]:
            if e['ev'] in KNOWN_EVENTS:
                out.append({'ev': e['ev'], 'h': e.get('h', 0)})
            else:
                ref.unmodelled.add(e['ev'])
                out.append({'ev': 'Other', 'h': 0})
    for e in out:
        e['kvh'] = sorted(kv_heights)
        e['valh'] = sorted(val_heights)
    return out


def validate_trace(ctx, events, name='trace', timeout=600):
    """-> (accepted, rejected_index or None, TLCResult)"""
    d = tempfile.mkdtemp(prefix='c6t')
    try:
        with open(os.path.join(d, 'trace.ndjson'), 'w') as f:
            for e in events:
                f.write(json.dumps(e) + '\n')
        r = tlc.run([SPEC, d], 'Trace_CommitPipeline.tla', 'Trace_CommitPipeline.cfg', workers=1, timeout=timeout)
    finally:
        shutil.rmtree(d, ignore_errors=True)
    ctx.cov['tlc_runs'].append(dict(r.summary(), name='CommitPipeline/' + name, exhaustive=False, events=len(events)))
    m = re.search(r'TRACE-REJECTED-AT",\s*(\d+)', r.out)
    if m:
        return False, int(m.group(1)), r
    if r.violation:
        return False, None, r
    if r.ok and 'Accepted' not in (r.error or ''):
        return True, None, r
    return False, None, r


# ---------------------------------------------------------------------------------------------
# the check

def base_label(l):
    return re.sub(r'#\d+$', '', l)


COMMIT_FROM = 'gldb.Set:H'


def plan(ctx, ref, quick):
    """[(kind index, k, j)] crash points to run."""
    rng = ctx.rng
    jobs = []
    nk = len(ref.script['batches'])
    if quick:
        full_kind = rng.randrange(nk - 1)          # one non-empty kind gets its whole commit section
        for ki in range(nk):
            labels = ref.labels[ki]
            first_commit = labels.index(COMMIT_FROM) if COMMIT_FROM in labels else len(labels)
            if ki == full_kind:
                ks = set(range(first_commit + 1, len(labels) + 1))
                ks |= set(rng.sample(range(1, first_commit + 1), min(3, first_commit)))
            else:
                by_site = {}
                for k, l in enumerate(labels, 1):
                    by_site.setdefault(base_label(l), []).append(k)
                sites = sorted(by_site)
                rng.shuffle(sites)
                ks = {rng.choice(by_site[s]) for s in sites[:3]}
            if ref.script['batches'][ki].get('kind') == 'kv':
                # the key-value block (one key is updated twice in it): always die inside the application's commit, after the
                # key-history batch and before / between the application's own commit records - the block is executed
                # again on restart and its history entries must end up stored exactly once
                ks |= {labels.index(l) + 1 for l in ('gldb.SetSync:lastreceipts', 'gldb.SetSync:lastblock') if l in labels}
            if ref.script['batches'][ki].get('power') and 'gldb.SetSync:stateKey' in labels:
                # the validator POWER UPDATE block: always die between the application's commit and State.Save, and
                # right after the save (the following blocks are committed by the restarted node)
                ks |= {labels.index('gldb.SetSync:stateKey') + 1, len(labels)}
            jobs += [(ki, k, 0) for k in sorted(ks)]
        for _ in range(2):                         # a few nested crashes
            ki = rng.randrange(nk)
            jobs.append((ki, rng.randrange(len(ref.labels[ki]) - 16, len(ref.labels[ki]) + 1), rng.randrange(1, 25)))
    else:
        for ki in range(nk):
            labels = ref.labels[ki]
            n = len(labels)
            first_commit = labels.index(COMMIT_FROM) if COMMIT_FROM in labels else 0
            for k in range(1, n + 1):
                jobs.append((ki, k, 0))
                # a second crash during recovery: for every write of the commit section, every other one before it
                if k > first_commit or (k + ki + ctx.seed) % 2 == 0:
                    jobs.append((ki, k, 1 + (k * 7 + ki * 3 + ctx.seed) % 36))
    return jobs


def run_job(ref, base, idx, job, attempts=3):
    ki, k, j = job
    last = None
    for a in range(attempts):
        try:
            return crash_job(ref, ki, k, j, os.path.join(base, 'j%d_%d' % (idx, a)))
        except (Flaky, NodeDied, subprocess.TimeoutExpired, OSError) as e:
            last = e
            time.sleep(0.5 + a)
    return {'ki': ki, 'k': k, 'j': j, 'flaky': str(last)[:400], 'failures': []}


def failure_key(res, what):
    key = 'crash-before:%s' % res.get('label')
    if res.get('j'):
        key += '+recovery-crash-before:%s' % (res.get('label2') or 'none')
    return key + ':' + what


def selftest_judge(ctx, ref, good):
    """Binding self-test: the same observations with ONE fact falsified must be rejected by the judge."""
    script, ki, pre, live, off = good
    bad = 0
    muts = []
    o = json.loads(json.dumps(off)); o['state']['height'] -= 1; muts.append(('heights', pre, live, o))
    o = json.loads(json.dumps(off)); o['nonces'] = dict(o.get('nonces') or {}, A=(o.get('nonces') or {}).get('A', 0) + 1); muts.append(('nonce', pre, live, o))
    o = json.loads(json.dumps(off)); o['replay'] = {'ok': False, 'fail_height': 2, 'err': 'selftest'}; muts.append(('replay', pre, live, o))
    p = json.loads(json.dumps(pre))
    if p and p[0].get('blocks'):
        p[0]['blocks'][0]['hash'] = '00' * 20
        muts.append(('block-changed', p, live, off))
    for what, p_, l_, o_ in muts:
        got = [w for w, _ in judge(script, ki, p_, l_, o_)]
        if what not in got:
            bad += 1
            ctx.inconclusive.append('binding self-test: falsified observation %r was not rejected (%s)' % (what, got))
    return len(muts) - bad, len(muts)


def run(ctx, replay=None):
    engine.build_go(ctx, ['crashnode', 'crashdrv'])
    quick = ctx.tier == 'quick'
    base = tempfile.mkdtemp(prefix='c6', dir='/tmp')
    try:
        if replay is not None:
            return run_replay(ctx, replay, base)
        return run_full(ctx, quick, base)
    finally:
        shutil.rmtree(base, ignore_errors=True)
        for d in os.listdir('/tmp'):
            if d.startswith('c06-replay-'):
                shutil.rmtree(os.path.join('/tmp', d), ignore_errors=True)


def make_reference(ctx, base, seed):
    last = None
    for a in range(3):
        d = os.path.join(base, 'r%d' % a)
        os.makedirs(d)
        try:
            ref = Reference(ctx, d, seed).run()
        except (Flaky, NodeDied) as e:
            last = e
            continue
        rounds = max(sum(1 for l in ref.labels[i] if l.startswith('WriteFileAtomic.rename')) for i in ref.labels)
        ref.canonical = rounds <= 3
        if ref.canonical or a == 2:
            return ref
    raise engine.Inconclusive('reference run failed 3 times: %s' % last)


# a scripted transaction that missed its block (timing) is the only reference defect that is not a verdict
REF_ENVIRONMENTAL = {'tx-lost'}


def judge_reference(ref):
    """The oracle applied to the uncrashed reference run (stopped cleanly at a pause)."""
    fo = ref.final_off
    live = {'blocks': fo.get('blocks'), 'nonces': fo.get('nonces'), 'counter': fo.get('counter'), 'kv': fo.get('kv'),
            'receipts': fo.get('receipts')}
    seen, out = set(), []
    for w, d in judge(ref.script, len(ref.script['batches']), [], live, fo):
        if (w, d.replace('rpc:', 'offline:')) not in seen:
            seen.add((w, d.replace('rpc:', 'offline:')))
            out.append((w, d))
    return out


def reference_failure(seed, what, detail):
    return {'key': 'reference:%s' % ('replay-mismatch' if what == 'replay' else what), 'property': True, 'kind': what,
            'detail': 'UNCRASHED node, all block kinds committed one after the other with a clean stop/start between them: %s' % detail[:3500],
            'action': 'reference run', 'step': 0, 'engine': 'c06',
            'replay': {'engine': 'c06', 'args': [], 'trace': {'mode': 'reference', 'seed': seed, 'what': what}}}


def run_replay(ctx, replay, base):
    if replay.get('engine') == 'raftfsm':
        from . import raft_slice
        return raft_slice.run_replay(ctx, replay)
    t = replay['trace']
    ref = make_reference(ctx, base, t.get('seed', ctx.seed))
    if t.get('mode') == 'reference':
        rf = judge_reference(ref)
        ctx.cov['evaluations'] = ctx.cov['traces_validated_against_impl'] = 1
        ctx.cov['states'] = ctx.cov['transitions'] = 1
        ctx.sample({'replayed': t, 'failures': [w for w, _ in rf]})
        for w, detail in rf:
            if w not in REF_ENVIRONMENTAL:
                ctx.failures.append(reference_failure(t.get('seed', ctx.seed), w, detail))
        return
    if t.get('mode') == 'trace':
        fo = ref.final_off
        kvh = [b['height'] for b in fo.get('blocks') or [] if any(x['type'] == 'kv' for _, x in included_txs(ref.script, [b])[0])]
        vh = [b['height'] for b in fo.get('blocks') or [] if any(x['type'] == 'admin' for _, x in included_txs(ref.script, [b])[0])]
        trace = build_trace(ref, kvh, vh)
        ok, at, r = validate_trace(ctx, trace, 'trace-replay')
        ctx.cov['evaluations'] = ctx.cov['traces_validated_against_impl'] = 1
        ctx.cov['states'] = ctx.cov['transitions'] = max(1, r.distinct)
        ctx.sample({'replayed': t, 'accepted': ok, 'rejected_at': at})
        if not ok and at is not None and 1 <= at <= len(trace):
            e = trace[at - 1]
            ctx.failures.append({'key': 'write-order:%s' % e['ev'], 'property': e['ev'] in ORDER_CRITICAL, 'kind': 'trace',
                                 'detail': 'event %d (%s) of the uncrashed durable-write log is not a step of CommitPipeline.tla; preceding: %s'
                                           % (at, e['ev'], [x['ev'] for x in trace[max(0, at - 6):at - 1]]),
                                 'action': 'trace', 'step': at, 'engine': 'c06', 'replay': {'engine': 'c06', 'args': [], 'trace': t}})
        elif not ok:
            ctx.inconclusive.append('trace validation did not finish: %s' % (r.violation or r.error or 'timeout')[:300])
        return
    res = run_job(ref, base, 0, (t['ki'], t['k'], t.get('j', 0)))
    ctx.cov['evaluations'] = 1
    ctx.cov['traces_validated_against_impl'] = 1
    ctx.cov['states'] = ctx.cov['transitions'] = 1
    ctx.sample({'replayed': t, 'label': res.get('label'), 'failures': [w for w, _ in res['failures']]})
    if res.get('flaky'):
        ctx.inconclusive.append('replay could not be driven: %s' % res['flaky'])
    for what, detail in res['failures']:
        ctx.failures.append({'key': failure_key(res, what), 'property': True, 'kind': what, 'detail': detail[:4000],
                             'action': 'crash kind=%s k=%s j=%s' % (res.get('kind'), res.get('k'), res.get('j')), 'step': res.get('k'),
                             'engine': 'c06', 'replay': {'engine': 'c06', 'args': [], 'trace': t}})


def run_full(ctx, quick, base):
    pool = ThreadPoolExecutor(max_workers=10)
    # (a) the specification, exhaustively
    cfgs = [('q', 'MC_CommitPipeline_q.cfg', None)] if quick else \
           [('q', 'MC_CommitPipeline_q.cfg', None), ('t', 'MC_CommitPipeline_t.cfg', None)]
    neg = [('legacy', 'MC_CommitPipeline_legacy.cfg', 'pre-repair recovery'), ('kvdup', 'MC_CommitPipeline_kvdup.cfg', 'pre-repair kv history'),
           ('valswap', 'MC_CommitPipeline_valswap.cfg', 'pre-repair LoadIntermediate')]
    cfgs += [neg[ctx.seed % 3]] if quick else neg
    tlc_f = {n: pool.submit(tlc.run, SPEC, 'MC_CommitPipeline.tla', c, workers=4 if n == 't' else 2, timeout=1500)
             for n, c, _ in cfgs}

    # (b) reference run
    ref = make_reference(ctx, base, ctx.seed)
    K = {ref.script['batches'][i]['kind']: len(ref.labels[i]) for i in ref.labels}
    ctx.log('reference run: durable writes per block kind %s' % K)
    fo = ref.final_off
    kv_heights = [b['height'] for b in fo.get('blocks') or []
                  if any(t['type'] == 'kv' for _, t in included_txs(ref.script, [b])[0])]
    val_heights = [b['height'] for b in fo.get('blocks') or []
                   if any(t['type'] == 'admin' for _, t in included_txs(ref.script, [b])[0])]
    # the UNCRASHED run is judged by the same oracle (heights, hashes, exactly-once, re-execution on a fresh node).
    # A property-level failure that shows again in a second reference run is a verdict ("re-executing the chain
    # from genesis reproduces every hash recorded in it" does not need a crash); anything else is environmental.
    rf = judge_reference(ref)
    if rf:
        ctx.log('reference run is not clean: %s -- running it once more' % [w for w, _ in rf][:5])
        os.makedirs(os.path.join(base, 'b'))
        ref2 = make_reference(ctx, os.path.join(base, 'b'), ctx.seed)
        rf2 = judge_reference(ref2)
        common = ({w for w, _ in rf} & {w for w, _ in rf2}) - REF_ENVIRONMENTAL
        if common:
            for w, detail in rf2:
                if w in common:
                    ctx.failures.append(reference_failure(ctx.seed, w, detail))
            for n, c, expect in cfgs:
                r = tlc_f[n].result()
                if expect is None:
                    ctx.add_tlc('CommitPipeline/' + n, r)
            ctx.cov['evaluations'] = ctx.cov['traces_validated_against_impl'] = 2
            ctx.cov['distinct_nontrivial'] = 2
            ctx.cov['rule'] = 'two independent uncrashed reference runs (all block kinds, node restarted between kinds) judged by the full oracle'
            ctx.sample({'reference_failures': sorted(common)})
            ctx.notes.append('crash enumeration skipped: the uncrashed reference run already contradicts the property')
            pool.shutdown(wait=False)
            return
        if rf2:
            raise engine.Inconclusive('the UNCRASHED reference run is not clean (%s, then %s) for reasons that do not repeat; '
                                      'nothing can be concluded about crashes' % ([w for w, _ in rf][:5], [w for w, _ in rf2][:5]))
        ref = ref2
        fo = ref.final_off
        kv_heights = [b['height'] for b in fo.get('blocks') or []
                      if any(t['type'] == 'kv' for _, t in included_txs(ref.script, [b])[0])]
        val_heights = [b['height'] for b in fo.get('blocks') or []
                       if any(t['type'] == 'admin' for _, t in included_txs(ref.script, [b])[0])]

    # (T) the uncrashed durable-write sequence is a behaviour of the spec
    trace = build_trace(ref, kv_heights, val_heights)
    t_f = pool.submit(validate_trace, ctx, trace, 'trace')
    swapped = list(trace)
    ks = max(i for i, e in enumerate(swapped) if e['ev'] == 'gldb.SetSync:lastblock' and i + 1 < len(swapped))
    swapped[ks], swapped[ks + 1] = swapped[ks + 1], swapped[ks]
    ts_f = pool.submit(validate_trace, ctx, swapped, 'trace-selftest(lastblock/stateKey swapped)')

    # (b) crash points
    jobs = plan(ctx, ref, quick)
    ctx.log('%d crash jobs (%s)' % (len(jobs), 'sample' if quick else 'every write of every kind; commit-section writes and every other consensus write also with a second crash during recovery'))
    workers = 8
    results = []
    with ThreadPoolExecutor(max_workers=workers) as ex:
        futs = [ex.submit(run_job, ref, base, n, job) for n, job in enumerate(jobs)]
        for n, f in enumerate(futs):
            results.append(f.result())
            if (n + 1) % 40 == 0:
                ctx.log('  %d/%d crash jobs done' % (n + 1, len(jobs)))

    hit, flaky, walls = set(), 0, []
    for res in results:
        if res.get('flaky'):
            flaky += 1
            ctx.inconclusive.append('crash point kind=%s k=%s j=%s could not be driven: %s' % (res.get('ki'), res['k'], res['j'], res['flaky']))
            continue
        hit.add((res['kind'], res['label'], res.get('label2')))
        if res.get('wall'):
            walls.append(res['wall'])
        for what, detail in res['failures']:
            ctx.failures.append({'key': failure_key(res, what), 'property': True, 'kind': what,
                                 'detail': 'block kind %s, killed before durable write %d (%s)%s: %s' % (
                                     res['kind'], res['k'], res['label'],
                                     ', killed again before write %d of the recovery (%s)' % (res['j'], res.get('label2')) if res['j'] else '',
                                     detail[:3500]),
                                 'action': 'crash kind=%s k=%d j=%d' % (res['kind'], res['k'], res['j']), 'step': res['k'], 'engine': 'c06',
                                 'replay': {'engine': 'c06', 'args': [], 'trace': {'ki': res['ki'], 'k': res['k'], 'j': res['j'],
                                                                                    'seed': ctx.seed, 'label': res['label']}}})
    # binding self-test on real observations: one extra job whose observations are kept
    good = None
    try:
        good = crash_job_keep(ref, base)
    except (Flaky, NodeDied) as e:
        ctx.inconclusive.append('binding self-test could not be driven: %s' % e)
    if good is not None:
        ok, n = selftest_judge(ctx, ref, good)
        ctx.cov['binding_selftest'] = 'rejected %d/%d falsified observations' % (ok, n)

    # collect TLC
    for n, c, expect in cfgs:
        r = tlc_f[n].result()
        if expect is None:
            ctx.add_tlc('CommitPipeline/' + n, r)
            ctx.log('TLC %s: %s' % (n, r.summary()))
            if r.violation:
                ctx.inconclusive.append('spec invariant %s violated in config %s (specification defect, not a verdict about the code)' % (r.violation, n))
        else:
            ctx.cov['tlc_runs'].append(dict(r.summary(), name='CommitPipeline/%s (%s: a violation is EXPECTED)' % (n, expect), exhaustive=False))
            ctx.log('TLC %s (expected violation): %s' % (n, r.violation))
            if not r.violation:
                ctx.inconclusive.append('spec self-test: the model of the %s does not violate the properties any more' % expect)
    okT, at, rT = t_f.result()
    ctx.log('trace validation: %s (%d events) %s' % ('accepted' if okT else 'REJECTED', len(trace), rT.summary()))
    ctx.cov['trace_events_validated'] = len(trace) if okT else 0
    if not okT:
        if at is not None and 1 <= at <= len(trace):
            e = trace[at - 1]
            commit_ev = e['ev'] in ORDER_CRITICAL
            if not ref.canonical and not commit_ev:
                ctx.notes.append('trace validation skipped: the reference run needed more than one consensus round (event %d %s)' % (at, e['ev']))
            else:
                ctx.failures.append({'key': 'write-order:%s' % e['ev'], 'property': commit_ev, 'kind': 'trace',
                                     'detail': 'the durable-write sequence of the UNCRASHED node is not a behaviour of CommitPipeline.tla: '
                                               'event %d (%s, height %s) cannot happen here; preceding events: %s'
                                               % (at, e['ev'], e['h'], [x['ev'] for x in trace[max(0, at - 6):at - 1]]),
                                     'action': 'trace', 'step': at, 'engine': 'c06',
                                     'replay': {'engine': 'c06', 'args': [], 'trace': {'mode': 'trace', 'seed': ctx.seed}}})
        else:
            ctx.inconclusive.append('trace validation did not finish: %s' % (rT.violation or rT.error or 'timeout')[:300])
    if getattr(ref, 'unmodelled', None):
        ctx.cov['unmodelled_writes'] = sorted(ref.unmodelled)
        ctx.notes.append('durable writes not described by CommitPipeline.tla (treated as no-ops in trace validation; the crash '
                         'enumeration still covers them): %s' % sorted(ref.unmodelled))
    okS, atS, rS = ts_f.result()
    ctx.cov['trace_selftest'] = 'rejected' if not okS and atS else 'ACCEPTED'
    if okS or not atS:
        ctx.inconclusive.append('trace self-test: a log with lastblock/stateKey swapped was not rejected')

    ctx.cov['exhaustive'] = True
    ctx.cov['traces_validated_against_impl'] = len(results) - flaky
    ctx.cov['evaluations'] = len(results) - flaky
    ctx.cov['distinct_nontrivial'] = len(hit)
    ctx.cov['rule'] = ('one evaluation = one real node subprocess killed (exit 137 inside the failpoint) immediately before a chosen durable '
                       'write, restarted and judged; distinct = distinct (block kind, write site:key class #occurrence[, second crash site]) at '
                       'which the process actually died (read back from its own durable-write log); every such point is non-trivial (a real '
                       'process death inside the decide/commit cycle of a block)')
    ctx.cov['writes_per_block_kind'] = K
    ctx.cov['crash_jobs'] = len(results)
    ctx.cov['flaky_jobs'] = flaky
    ctx.cov['per_point_wall_s'] = round(sum(walls) / len(walls), 1) if walls else None
    ctx.cov['double_crash_jobs'] = sum(1 for r in results if r.get('j'))
    for r in results[:3]:
        ctx.sample({k: r.get(k) for k in ('kind', 'k', 'j', 'label', 'label2', 'height', 'wall')})
    ctx.sample({'write_order_' + ref.script['batches'][2]['kind']: ref.labels[2]})
    ctx.assumptions += ['process death only (kill -9 / os.Exit): data handed to the OS survives; power loss / torn sectors are out of scope',
                        'the node-subprocess enumeration runs a single-validator pbft node; raft mode (FSM.Apply) is bound by the raft slice (in-process, see raft_slice)',
                        'symbolic hashes in the spec; block parts <= 2, trie batches <= 2 per commit in the model',
                        'mempool contents are volatile: transactions not yet in a committed block may be lost by a crash']
    pool.shutdown(wait=False)
    from . import raft_slice          # raft consensus mode: RaftMode.tla + replay on real raft-mode nodes + live cluster
    raft_slice.run_slice(ctx)


def crash_job_keep(ref, base):
    """One ordinary crash point (before the stateKey write of the kv block) whose observations are returned."""
    ki = 2
    labels = ref.labels[ki]
    k = labels.index('gldb.SetSync:stateKey') + 1
    script = ref.script
    b = script['batches'][ki]
    work = os.path.join(base, 'st')
    rt = os.path.join(work, 'rt')
    copy_rt(ref.snap[ki], rt)
    node = Node(rt)
    try:
        mark = os.path.join(node.work, 'armed')
        node.start(crash_at=k, mark=mark)
        node.wait_quiescent(timeout=40)
        submit_batch(node, b)
        open(mark, 'w').close()
        node.proc.wait(timeout=40)
        if node.proc.returncode != 137:
            raise Flaky('self-test node exited rc=%s' % node.proc.returncode)
        pre = [drv(['offline', '-runtime', rt, '-script', ref.script_path])]
        node.start()
        node.wait_quiescent(timeout=60, min_commits=2)
        live = observe_live(node, script, ref.script_path)
        node.wait_quiescent(timeout=30, min_commits=2)
        node.stop()
        if not quiescent(node.events()[0]):
            raise Flaky('self-test node not stopped at a pause')
        off = drv(['offline', '-runtime', rt, '-script', ref.script_path, '-replay', '-port', free_ports(1)[0]], timeout=180)
        if judge(script, ki, pre, live, off):
            raise Flaky('self-test baseline is not clean')
        return (script, ki, pre, live, off)
    finally:
        node.kill()
        shutil.rmtree(work, ignore_errors=True)
