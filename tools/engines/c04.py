"""C04 locking discipline: the lock rules are evaluated inside the transcribed handlers (NoRuleBroken), as
invariants (LockJustified) and as action properties (UnlockOnlyOnLaterPolka) in every reachable state; witness
behaviours that exercise lock / unlock / relock / proposing the locked block are replayed on real nodes, where the
real node must emit exactly the votes the spec's guarded steps emit."""
from . import tm_common as tm
from .tm_family import Plan, run_family


def plan(tier):
    p = Plan()
    quick = tier == 'quick'
    lock_goals = ['NoLock', 'NoUnlock', 'NoRelock', 'NoLockedProposal', 'NoPrevoteOfLock']
    p.exhaustive = [(tm.Cfg('n3p112-b1-r1', [1, 1, 2], [1], max_round=1, budget=1), ['NoLock', 'NoLockedProposal'])]
    if not quick:
        p.exhaustive += [(tm.Cfg('n3p112-b1-r2', [1, 1, 2], [1], max_round=2, budget=1), lock_goals),
                         (tm.Cfg('n4-b0-r2', [1, 1, 1, 1], [4], max_round=2, budget=0), lock_goals)]
        # measured: n3p112 with Byzantine budget 2 and rounds 0..2 generated 142 M states in 2 h without finishing; budget 2
        # is explored exhaustively at rounds 0..1 by C01 (8.7 M distinct states) and by the unbounded-budget simulations below
    n = 30 if quick else 300
    p.sims = [(tm.Cfg('sim-lock-n4', [1, 1, 1, 1], [2], max_round=3, max_height=1, nbyz=1, budget=8, own_first=False,
                      useful_only=True), n, 110),
              (tm.Cfg('sim-lock-n3', [1, 1, 2], [1], max_round=3, max_height=2, nbyz=1, budget=-1, own_first=False,
                      useful_only=True), n, 110)]
    # total voting power = 2 (mod 3): the +2/3 threshold is not a multiple of the arithmetic used (5 -> more than 3.33, i.e. 4)
    p.sims.append((tm.Cfg('sim-lock-n3p122', [1, 2, 2], [1], max_round=2, max_height=2, nbyz=1, budget=4, own_first=False,
                          useful_only=True), n, 100))
    # total voting power divisible by 3 (6): exactly two thirds (the Byzantine validator plus the heaviest one: 4 of 6) is NOT
    # a polka and NOT a commit
    p.sims.append((tm.Cfg('sim-lock-n3p123', [1, 2, 3], [1], max_round=2, max_height=2, nbyz=1, budget=4, own_first=False,
                          useful_only=True), n, 100))
    # locks must survive restarts (WAL replay re-runs the handlers; the signer refuses to sign again what it signed before)
    p.sims.append((tm.Cfg('sim-lock-crash', [1, 1, 1, 1], [2], max_round=3, max_height=1, nbyz=1, budget=4, crashes=4,
                          crash_set=[1, 3, 4], own_first=False, useful_only=True, torn=True), n, 130))
    p.rule_extra = 'Lock-related goals: a lock is taken, released by a later polka, renewed, and the locked block is proposed/prevoted.'
    byzcfg = tm.Cfg('trace-n4-byz', [1, 1, 1, 1], [1], max_round=10, max_height=4, nbyz=2, budget=-1, own_first=False,
                    useful_only=False, properties=[])
    byzcfg.byz_active = True
    byzcfg.scale = 8
    p.live_runs = [(tm.Cfg('trace-n4', [1, 1, 1, 1], [2], max_round=10, max_height=4, nbyz=0, budget=0, own_first=False,
                           useful_only=False, properties=[]), 3, 1 if quick else 6),
                   (byzcfg, 3, 1 if quick else 8)]
    p.scenarios = ['lock_unlock', 'relock_and_pol_proposal', 'locked_without_proposal', 'stale_polka_must_not_unlock',
                   'lock_survives_restart', 'skip_round_on_precommits']
    p.rotate_wal = 1   # WAL rotations before most crashes and at random points (invisible to the specification)
    return p


def run(ctx, replay=None):
    run_family(ctx, plan(ctx.tier), replay)
