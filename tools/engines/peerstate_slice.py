"""PeerState slice (used by C12): specs/peerstate/PeerState.tla - what a node believes a peer has, the record the gossip
routines decide from - exhaustively model-checked (SoundStep, PickSendsUnknown, NeverResend, Monotone, alias invariants), and
simulated behaviours replayed on the real pbft.PeerState with the full projected state compared after every method call."""
import copy
import os

from .. import engine, tlc

SPEC = os.path.join(engine.VERIF, 'specs', 'peerstate')


def _label(traces, n, name, seed):
    out = []
    for k, t in enumerate(traces):
        steps = []
        for s in t['steps']:
            act = s['post'].pop('act', None) or ['?']
            steps.append({'a': act[0], 'args': act[1:], 'post': s['post']})
        t['steps'] = steps
        t['init'].pop('act', None)
        t['cfg'] = {'N': n}
        t['id'] = 'peerstate-%s-%d-%d' % (name, seed, k)
        out.append(t)
    return out


def run_slice(ctx, replay=None):
    engine.build_go(ctx, ['peerstate'])
    if replay is not None:
        rep = engine.run_driver(ctx, 'peerstate', [replay['trace']])
        engine.collect(ctx, rep, [replay['trace']], 'peerstate')
        return
    quick = ctx.tier == 'quick'
    r = engine.tlc_check(ctx, SPEC, 'MC_PeerState.tla', 'MC_PeerState_n1.cfg' if quick else 'MC_PeerState_n2.cfg',
                         name='PeerState/' + ('n1' if quick else 'n2'), timeout=900 if quick else 3600, workers=8)
    if r.violation:
        ctx.inconclusive.append('PeerState.tla: %s violated on the specification (a defect of the specification/design; '
                                'a verdict about the code only when a replay reproduces it)' % r.violation)
    tlc.cleanup(r)
    traces = []
    for name, cfg, n, num, depth in ([('n2', 'MC_PeerState_sim.cfg', 2, 150, 40), ('n3', 'MC_PeerState_sim3.cfg', 3, 60, 50)] if quick else
                                     [('n2', 'MC_PeerState_sim.cfg', 2, 1500, 50), ('n3', 'MC_PeerState_sim3.cfg', 3, 800, 60)]):
        rs, ts = tlc.simulate_traces(SPEC, 'MC_PeerState.tla', cfg, num, depth, ctx.seed, timeout=1200)
        ctx.add_tlc('PeerState/sim-' + name, rs, exhaustive=False)
        traces += _label(ts, n, name, ctx.seed)
    # binding self-test
    probe = None
    for t in traces:
        for si, s in enumerate(t['steps']):
            if s['a'] == 'NewRoundStep' and s['post']['ps']['h'] > 0:
                probe = copy.deepcopy(t)
                probe['steps'] = probe['steps'][:si + 1]
                probe['steps'][si]['post']['ps']['r'] += 1
                break
        if probe:
            break
    if probe:
        rep = engine.run_driver(ctx, 'peerstate', [probe])
        ok = bool(rep.get('failures'))
        ctx.cov['peerstate_selftest'] = 'rejected' if ok else 'ACCEPTED'
        if not ok:
            ctx.inconclusive.append('peerstate binding self-test: corrupted trace accepted')
    rep = engine.run_driver(ctx, 'peerstate', traces)
    engine.collect(ctx, rep, traces, 'peerstate')
    eff = sum(1 for t in traces for k, s in enumerate(t['steps'])
              if s['post']['ps'] != (t['steps'][k - 1]['post']['ps'] if k else t['init']['ps']))
    ctx.cov['peerstate_slice'] = {'behaviours': rep['traces'], 'steps': rep['steps'], 'state_changing_steps': eff,
                                  'counters': rep.get('counters', {})}
    ctx.log('peerstate slice: %d behaviours, %d steps (%d change the state) replayed on the real PeerState' % (rep['traces'], rep['steps'], eff))
