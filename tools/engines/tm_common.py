"""Shared by the consensus checks (C01 C02 C04 C07 C12): generation of TLC configurations for
specs/tendermint/Tendermint.tla with proposer tables taken from the real ValidatorSet code, conversion
of TLC behaviours into csim replay traces."""
import json
import os
import shutil
import subprocess
import tempfile

from .. import engine, tlc

SPEC = os.path.join(engine.VERIF, 'specs', 'tendermint')

INVARIANTS = ['TypeOK', 'Agreement', 'ValidityOfDecided', 'CommitHasSingleRoundQuorum', 'NoRuleBroken',
              'LockJustified', 'NoEquivocationSent']
PROPERTIES = ['DecAppendOnly', 'UnlockOnlyOnLaterPolka', 'ReplayRestoresVotes']
ACTION_GOALS = {'NoUnlock', 'NoRelock', 'NoRestartMidHeight', 'ReplayRestores', 'ReplayRestoresVotes'}


def proposer_tables(ctx, power, max_h, max_r, next_power=None):
    """Ask the real code (csim tables) for LiveProp/StaleProp."""
    fd, p = tempfile.mkstemp(suffix='.json')
    with os.fdopen(fd, 'w') as f:
        json.dump({'Power': power, 'MaxHeight': max_h, 'MaxRound': max_r,
                   'NextPower': {str(k): v for k, v in (next_power or {}).items()}}, f)
    try:
        out = subprocess.run([os.path.join(engine.HARNESS, engine.BIN, 'csim'), 'tables', p], stdout=subprocess.PIPE,
                             stderr=subprocess.PIPE, text=True, timeout=120, env=engine.GOENV)
    finally:
        os.unlink(p)
    if out.returncode != 0:
        raise engine.Inconclusive('csim tables failed: ' + out.stderr[-1000:])
    return json.loads(out.stdout.strip().splitlines()[-1])


def tla_seq(xs):
    return '<<' + ', '.join(tla_seq(x) if isinstance(x, list) else str(x) for x in xs) + '>>'


class Cfg:
    """One TLC configuration of Tendermint.tla."""

    def __init__(self, name, power, byz, max_round=1, max_height=1, nbyz=1, budget=0, crashes=0, crash_set=(),
                 own_first=True, useful_only=True, next_power=None, sync=False, torn=False, spec='Spec', deadlock=False, invariants=None, properties=None, constraint=True, extra_defs=''):
        self.name = name
        self.power = power
        self.byz = sorted(byz)
        self.max_round = max_round
        self.max_height = max_height
        self.nbyz = nbyz
        self.budget = budget
        self.crashes = crashes
        self.crash_set = sorted(crash_set)
        self.own_first = own_first
        self.useful_only = useful_only
        self.next_power = next_power or {}   # {height: [powers]} validator-set changes
        self.sync = sync
        self.torn = torn
        self.spec = spec
        self.deadlock = deadlock
        self.invariants = INVARIANTS if invariants is None else invariants
        self.properties = PROPERTIES if properties is None else properties
        self.constraint = constraint
        self.extra_defs = extra_defs
        self.tables = None

    def driver_cfg(self):
        d = {'Power': self.power, 'Byz': self.byz, 'MaxRound': self.max_round, 'MaxHeight': self.max_height}
        if self.next_power:
            d['NextPower'] = {str(k): v for k, v in self.next_power.items()}
        if self.tables:
            d.update(self.tables)
        return d

    def write(self, ctx, d):
        """Write MC_gen.tla / MC_gen.cfg into directory d (a scratch copy of the spec dir)."""
        if self.tables is None:
            self.tables = proposer_tables(ctx, self.power, self.max_height + 1, self.max_round, self.next_power)
        live, stale = self.tables['LiveProp'], self.tables['StaleProp']
        n = len(self.power)
        mod = ['---- MODULE MC_gen ----', 'EXTENDS Tendermint',
               'PowerT == ' + tla_seq(self.power),
               'LiveT == ' + tla_seq(live),
               'StaleT == ' + tla_seq(stale),
               'MCPower == [i \\in 1..%d |-> PowerT[i]]' % n,
               'MCLive == [h \\in 1..%d |-> [r \\in 0..%d |-> LiveT[h][r + 1]]]' % (len(live), self.max_round),
               'MCStale == [h \\in 1..%d |-> StaleT[h]]' % len(stale),
               'MCBudget == %d' % self.budget,
               'MCNextPower == ' + ('<<>>' if not self.next_power else '(' + ' @@ '.join('%d :> [i \\in 1..%d |-> %s[i]]' % (k, n, tla_seq(v)) for k, v in sorted(self.next_power.items())) + ')'),
               self.extra_defs, '====']
        with open(os.path.join(d, 'MC_gen.tla'), 'w') as f:
            f.write('\n'.join(mod) + '\n')
        cfg = ['SPECIFICATION ' + self.spec, 'CONSTANTS', '  N = %d' % n, '  Power <- MCPower', '  NextPower <- MCNextPower',
               '  Byz = {%s}' % ', '.join(map(str, self.byz)), '  MaxRound = %d' % self.max_round,
               '  MaxHeight = %d' % self.max_height, '  LiveProp <- MCLive', '  StaleProp <- MCStale',
               '  NByzVals = %d' % self.nbyz, '  ByzBudget <- MCBudget', '  MaxCrashes = %d' % self.crashes,
               '  CrashSet = {%s}' % ', '.join(map(str, self.crash_set)),
               '  OwnFirst = %s' % ('TRUE' if self.own_first else 'FALSE'),
               '  UsefulOnly = %s' % ('TRUE' if self.useful_only else 'FALSE'),
               '  Sync = %s' % ('TRUE' if self.sync else 'FALSE'), '  Torn = %s' % ('TRUE' if self.torn else 'FALSE'),
               'VIEW view', 'CHECK_DEADLOCK %s' % ('TRUE' if self.deadlock else 'FALSE')]
        if self.constraint:
            cfg.append('CONSTRAINT Bounded')
        if self.invariants:
            cfg.append('INVARIANTS ' + ' '.join(self.invariants))
        if self.properties:
            cfg.append('PROPERTIES ' + ' '.join(self.properties))
        with open(os.path.join(d, 'MC_gen.cfg'), 'w') as f:
            f.write('\n'.join(cfg) + '\n')


def gen_dir(ctx, cfg):
    d = tlc.scratch_copy(SPEC, prefix='vtm')
    cfg.write(ctx, d)
    return d


def check(ctx, cfg, timeout=900, workers=None, **kw):
    d = gen_dir(ctx, cfg)
    try:
        r = engine.tlc_check(ctx, d, 'MC_gen.tla', 'MC_gen.cfg', name='Tendermint/' + cfg.name, timeout=timeout,
                             workers=workers, **kw)
    finally:
        shutil.rmtree(d, ignore_errors=True)
    return r


def act_steps(trace):
    """Replace TLC's action labels by the spec's own `act` variable (name + arguments)."""
    steps = []
    for s in trace['steps']:
        act = s['post'].get('act')
        if not act:
            continue
        post = dict(s['post'])
        post.pop('act', None)
        post.pop('net', None)
        steps.append({'a': act[0], 'args': act[1:], 'post': post})
    return steps


def simulate(ctx, cfg, num, depth, seed, timeout=600):
    d = gen_dir(ctx, cfg)
    try:
        r, traces = tlc.simulate_traces(d, 'MC_gen.tla', 'MC_gen.cfg', num, depth, seed, timeout=timeout)
    finally:
        shutil.rmtree(d, ignore_errors=True)
    out = []
    for k, t in enumerate(traces):
        out.append({'id': 'sim-%s-%d-%d' % (cfg.name, seed, k), 'cfg': cfg.driver_cfg(), 'steps': act_steps(t)})
    return r, out


def trace_of(cfg, r, tag):
    """Convert a TLC counterexample (list of (label, state)) into a replay trace."""
    steps = []
    for label, st in r.trace[1:]:
        act = st.get('act')
        if not act:
            continue
        post = dict(st)
        post.pop('act', None)
        post.pop('net', None)
        steps.append({'a': act[0], 'args': act[1:], 'post': post})
    return {'id': '%s-%s' % (tag, cfg.name), 'cfg': cfg.driver_cfg(), 'steps': steps}


def witness(ctx, cfg, goal_inv, timeout=600, workers=None):
    """Shortest behaviour violating `goal_inv` (a reachability goal stated as a negated invariant)."""
    is_action = goal_inv in ACTION_GOALS
    c = Cfg(cfg.name + '-w-' + goal_inv, cfg.power, cfg.byz, cfg.max_round, cfg.max_height, cfg.nbyz, cfg.budget,
            cfg.crashes, cfg.crash_set, cfg.own_first, cfg.useful_only, sync=cfg.sync, torn=cfg.torn,
            invariants=[] if is_action else [goal_inv], properties=[goal_inv] if is_action else [],
            constraint=cfg.constraint, extra_defs=cfg.extra_defs)
    c.tables = cfg.tables
    d = gen_dir(ctx, c)
    try:
        r = tlc.run(d, 'MC_gen.tla', 'MC_gen.cfg', workers=workers or 8, timeout=timeout)
    finally:
        shutil.rmtree(d, ignore_errors=True)
    cfg.tables = c.tables
    if r.violation != goal_inv or not r.trace:
        return r, None
    steps = []
    for label, st in r.trace[1:]:
        act = st.get('act')
        post = dict(st)
        post.pop('act', None)
        post.pop('net', None)
        steps.append({'a': act[0], 'args': act[1:], 'post': post})
    return r, {'id': 'witness-%s-%s' % (cfg.name, goal_inv), 'cfg': cfg.driver_cfg(), 'steps': steps}


def nontrivial(tr):
    """non-trivial: reaches round >= 1, holds a lock, contains a Byzantine message or a crash, or decides."""
    for s in tr['steps']:
        if s['a'] in ('Byz', 'Crash', 'Restart'):
            return True
        nodes = (s.get('post') or {}).get('node') or []
        it = nodes.values() if isinstance(nodes, dict) else nodes
        for nd in it:
            if not isinstance(nd, dict):
                continue
            if nd.get('r', 0) >= 1 or nd.get('lb') != ['none'] or nd.get('dec'):
                return True
    return False


def validate_trace(ctx, cfg, ndjson_path, timeout=600):
    """TLC decides whether the recorded execution (ndjson) is a behaviour of Tendermint.tla (Trace_Tendermint.tla)
    and evaluates the safety invariants on every state of it. Returns TLCResult; accepted iff r.ok."""
    d = tlc.scratch_copy(SPEC, prefix='vtr')
    try:
        cfg.write(ctx, d)
        mod = open(os.path.join(d, 'MC_gen.tla')).read().replace('---- MODULE MC_gen ----', '---- MODULE MC_trace ----') \
            .replace('EXTENDS Tendermint', 'EXTENDS Trace_Tendermint')
        with open(os.path.join(d, 'MC_trace.tla'), 'w') as f:
            f.write(mod)
        c = open(os.path.join(d, 'MC_gen.cfg')).read()
        c = c.replace('SPECIFICATION Spec', 'SPECIFICATION TraceSpec').replace('VIEW view', 'VIEW TraceView')
        c = '\n'.join(l for l in c.splitlines() if not l.startswith('PROPERTIES') and not l.startswith('CONSTRAINT'))
        c += '\nPOSTCONDITION TraceAccepted\n'
        with open(os.path.join(d, 'MC_trace.cfg'), 'w') as f:
            f.write(c)
        shutil.copy(ndjson_path, os.path.join(d, 'trace.ndjson'))
        r = tlc.run(d, 'MC_trace.tla', 'MC_trace.cfg', workers=1, timeout=timeout)
        if r.ok and ('TraceAccepted' in r.out and 'violated' in r.out):
            r.ok = False
            r.violation = 'TraceAccepted'
        return r
    finally:
        shutil.rmtree(d, ignore_errors=True)


def to_tla(v):
    """Python value -> TLA+ expression (lists -> tuples, dicts -> records)."""
    if isinstance(v, bool):
        return 'TRUE' if v else 'FALSE'
    if isinstance(v, int):
        return str(v)
    if isinstance(v, str):
        return '"%s"' % v
    if isinstance(v, (list, tuple)):
        return '<<' + ', '.join(to_tla(x) for x in v) + '>>'
    if isinstance(v, dict):
        return '[' + ', '.join('%s |-> %s' % (k, to_tla(x)) for k, x in v.items()) + ']'
    raise ValueError(v)


def scripted(ctx, cfg, script, name, timeout=600):
    """Let TLC follow a hand-written schedule (list of [action, node(, argument)]) through Tendermint.tla and return the
    behaviour with the full spec state after every step (a directed witness). Internal steps may omit the message.
    Returns (trace or None, number of steps TLC could follow)."""
    defs = cfg.extra_defs + '\nScript == ' + to_tla([list(s) for s in script]) + '''
Follow == LET k == TLCGet("level") IN
            /\\ k <= Len(Script)
            /\\ LET e == Script[k] IN /\\ act'[1] = e[1] /\\ act'[2] = e[2]
                                     /\\ (Len(e) >= 3 => act'[3] = e[3])
\* TLC evaluates invariants also on successors that the action constraint rejects: the final state must itself be reached
\* by the last scripted step
ScriptNotDone == LET k == TLCGet("level") IN
                   ~(/\ k = Len(Script) + 1
                     /\ LET e == Script[k - 1] IN /\ act[1] = e[1] /\ act[2] = e[2]
                                                  /\ (Len(e) >= 3 => act[3] = e[3]))
'''
    c = Cfg(cfg.name + '-script-' + name, cfg.power, cfg.byz, cfg.max_round, cfg.max_height, cfg.nbyz, cfg.budget, cfg.crashes,
            cfg.crash_set, False, False, sync=False, torn=cfg.torn, invariants=['ScriptNotDone'], properties=[],
            constraint=False, extra_defs=defs)
    c.tables = cfg.tables
    d = gen_dir(ctx, c)
    try:
        with open(os.path.join(d, 'MC_gen.cfg'), 'a') as f:
            f.write('ACTION_CONSTRAINT Follow\n')
        r = tlc.run(d, 'MC_gen.tla', 'MC_gen.cfg', workers=1, timeout=timeout)
    finally:
        shutil.rmtree(d, ignore_errors=True)
    cfg.tables = c.tables
    if r.violation != 'ScriptNotDone' or not r.trace:
        return None, max(0, r.depth - 1), r
    t = trace_of(c, r, 'script-' + name)
    t['cfg'] = cfg.driver_cfg()
    return t, len(t['steps']), r
