"""C14 validator-set changes: AdminOp.tla exhaustively model-checked (signature tally over ALL short signature
lists; request sequences with sender/nonce binding, replay, direct precompile calls, read-only queries, two
replicas); the transitions of the dumped state graphs (edge cover) plus weighted random walks on them are
concretised with real keys/signatures/transactions and replayed through the real EVM application, admin
precompile, AdminOp plugin and State.ExecBlock/EndBlock on two real replicas (driver cmd/adminop)."""
import copy
import os
from collections import deque

from .. import engine, tlc

SPEC = os.path.join(engine.VERIF, 'specs', 'adminop')
MOD = 'MC_AdminOp.tla'
DROP = ('last',)
ACCOUNTS = ['a', 'b']

CFGS = {
    'q':  ('MC_AdminOp_q.cfg',  [1, 1, 1, -1]),
    'q3': ('MC_AdminOp_q3.cfg', [1, 1, 1, -1]),
    'g2': ('MC_AdminOp_g2.cfg', [2, 1, 2, 0]),
    'b3': ('MC_AdminOp_b3.cfg', [1, 1, 1, -1]),
    'm2': ('MC_AdminOp_m2.cfg', [1, 1, 2, 0]),
    'w2': ('MC_AdminOp_w2.cfg', [3, 1, 1, 1]),
    't111x': ('MC_AdminOp_t111x.cfg', [1, 1, 1, -1]),
    't1120': ('MC_AdminOp_t1120.cfg', [1, 1, 2, 0]),
    't2120': ('MC_AdminOp_t2120.cfg', [2, 1, 2, 0]),
    't3111': ('MC_AdminOp_t3111.cfg', [3, 1, 1, 1]),
    't1111': ('MC_AdminOp_t1111.cfg', [1, 1, 1, 1]),
}
# behaviour of the code BEFORE the three fix commits: TLC must refute the named property (spec sensitivity)
OLD = {'oldDup': 'CountedOnce', 'oldDirect': 'ChangeOnlyIfAuthorised', 'oldQuery': 'NoSideChannel', 'oldRace': 'OutcomeFromBlockAlone'}


def tcfg(name):
    return {'Nodes': 4, 'InitPower': CFGS[name][1], 'Accounts': ACCOUNTS, 'Replicas': 2}


def drained(st):
    if st.get('open', 0) != 0:
        return False
    n = len(st.get('chain', []))
    return all(r['h'] == n for r in st['rep'])


def drain_path(g, path, max_extra=8):
    """Extend an edge path with CloseBlock/Exec edges until every replica executed every closed block."""
    if not path:
        return path
    cur = g.edges[path[-1]][3]
    if drained(g.states[cur]):
        return path
    seen = {cur: None}
    dq = deque([cur])
    goal = None
    while dq:
        s = dq.popleft()
        if drained(g.states[s]):
            goal = s
            break
        d = 0
        x = s
        while seen[x] is not None:
            x = g.edges[seen[x]][0]
            d += 1
        if d >= max_extra:
            continue
        for k in g.out.get(s, []):
            e = g.edges[k]
            if e[1] not in ('CloseBlock', 'Exec') or e[3] in seen or e[3] == s:
                continue
            seen[e[3]] = k
            dq.append(e[3])
    if goal is None:
        return path
    ext = []
    x = goal
    while seen[x] is not None:
        ext.append(seen[x])
        x = g.edges[seen[x]][0]
    ext.reverse()
    return path + ext


def random_walk(g, rng, max_len=18):
    """A behaviour chosen step by step on the state graph, accepted changes, closing and executing preferred."""
    cur = rng.choice(g.init)
    path = []
    while len(path) < max_len:
        out = [k for k in g.out.get(cur, [])]
        if not out:
            break

        def weight(k):
            _, a, args, dst = g.edges[k]
            if a == 'Tx':
                res = args[4]
                return 6.0 if res == 'ok' else 2.0 if res in ('rejNonce', 'rejFrom', 'rejRoute', 'noop') else 0.4
            if a in ('Exec', 'ExecQ'):
                return 0.2 if dst == cur else (40.0 if a == 'Exec' else 8.0)
            return {'CloseBlock': 30.0, 'Query': 0.3, 'Resend': 4.0}.get(a, 1.0)
        k = rng.choices(out, weights=[weight(k) for k in out])[0]
        path.append(k)
        cur = g.edges[k][3]
    return path


def batch_walks(g, rng, n):
    """Directed behaviours on the b3 graph: a membership change and a power change accepted in ONE block, both replicas
    execute it, then a request carried by fewer distinct signers than the full set (tallied against the set that
    resulted from the batch), drained."""
    def step(cur, pred):
        out = [k for k in g.out.get(cur, []) if pred(g.edges[k])]
        return rng.choice(out) if out else None
    phases = [
        lambda e: e[1] == 'Tx' and e[2][4] == 'ok' and e[2][0]['cmd'] in ('add', 'remove'),
        lambda e: e[1] == 'Tx' and e[2][4] == 'ok' and e[2][0]['cmd'] == 'update',
        lambda e: e[1] == 'CloseBlock',
        lambda e: e[1] == 'Exec' and e[2][0] == 1 and e[3] != e[0],
        lambda e: e[1] == 'Exec' and e[2][0] == 2 and e[3] != e[0],
        lambda e: e[1] == 'Tx' and e[2][2] == 'contract' and len({x['s'] for x in e[2][1]}) < 3 and e[2][4] in ('ok', 'rejAuth'),
    ]
    # second family: an accepted request, both replicas execute its block, then the SAME body again from the other account
    # through a contract that STATICCALLs the precompile with the bound account as claimed sender
    def static_walk():
        cur = rng.choice(g.init)
        k = step(cur, lambda e: e[1] == 'Tx' and e[2][4] == 'ok' and e[2][2] == 'contract')
        if k is None:
            return None
        body = g.edges[k][2][0]
        path = [k]
        cur = g.edges[k][3]
        for ph in (phases[2], phases[3], phases[4],
                   lambda e: e[1] == 'Tx' and e[2][2] == 'static' and e[2][0] == body and len({x['s'] for x in e[2][1]}) == 3):
            k = step(cur, ph)
            if k is None:
                return None
            path.append(k)
            cur = g.edges[k][3]
        return tuple(drain_path(g, path))
    seen, out = set(), []
    for _ in range(n):
        p = static_walk()
        if p and p not in seen and len(out) < n // 3:
            seen.add(p)
            out.append(list(p))
    for _ in range(n * 6):
        if len(out) >= n:
            break
        cur = rng.choice(g.init)
        path = []
        for ph in phases:
            k = step(cur, ph)
            if k is None:
                path = None
                break
            path.append(k)
            cur = g.edges[k][3]
        if not path:
            continue
        path = tuple(drain_path(g, path))
        if path in seen:
            continue
        seen.add(path)
        out.append(list(path))
    return out


def run_chunks(ctx, traces, nproc, per=400):
    """Replay in several driver processes (each replica owns LevelDB handles and background goroutines)."""
    from concurrent.futures import ThreadPoolExecutor
    chunks = [traces[i:i + per] for i in range(0, len(traces), per)]
    total = {'traces': 0, 'steps': 0, 'checks': 0, 'counters': {}}

    def one(ch):
        return engine.run_driver(ctx, 'adminop', ch, timeout=3000)
    with ThreadPoolExecutor(max_workers=nproc) as ex:
        reps = list(ex.map(one, chunks))
    for ch, rep in zip(chunks, reps):
        engine.collect(ctx, rep, ch, 'adminop')
        for k in ('traces', 'steps', 'checks'):
            total[k] += rep.get(k, 0)
        for k, v in (rep.get('counters') or {}).items():
            total['counters'][k] = total['counters'].get(k, 0) + v
    return total


def nontrivial(tr):
    """Contains an accepted change, a replay/direct/query attempt with an otherwise acceptable request, a repeated
    signer, or a failing EndBlock."""
    for s in tr['steps']:
        a = s['a']
        if a == 'Tx':
            b, sl, route, snd, res = s['args']
            if res in ('ok', 'rejNonce', 'rejFrom', 'rejRoute'):
                return True
            signers = [e['s'] for e in sl if e['k'] == 'ok']
            if len(signers) != len(set(signers)):
                return True
        elif a in ('Query', 'Resend'):
            return True
        elif a == 'Exec' and s['args'][1] != 'ok':
            return True
        elif a == 'ExecQ':
            return True
        elif a == 'Check':
            signers = [e['s'] for e in s['args'][0] if e['k'] == 'ok']
            if len(signers) != len(set(signers)) or any(e['k'] != 'ok' for e in s['args'][0]):
                return True
    return False


def run(ctx, replay=None):
    engine.build_go(ctx, ['adminop'])
    if replay is not None:
        rep = engine.run_driver(ctx, 'adminop', [replay['trace']])
        engine.collect(ctx, rep, [replay['trace']], 'adminop')
        ctx.cov['traces_validated_against_impl'] = 1
        ctx.cov['states'] = ctx.cov['transitions'] = max(1, len(replay['trace']['steps']))
        ctx.sample({'replayed': len(replay['trace']['steps'])})
        return

    quick = ctx.tier == 'quick'
    workers = 4
    exhaustive = ['q', 'g2', 'b3', 't2120'] if quick else ['q', 'q3', 'g2', 'b3', 't111x', 't1120', 't2120', 't3111', 't1111', 'm2', 'w2']
    graph_cfgs = {'q': 14, 'g2': 14, 'b3': 16, 't2120': 400} if quick else \
                 {'q': 14, 'q3': 16, 'g2': 14, 'b3': 16, 't111x': 400, 't1120': 400, 't2120': 400, 't3111': 400, 't1111': 400}
    max_paths = {'q': 1100, 'g2': 700, 'b3': 300} if quick else {'q3': 4000, 'b3': 3000}
    race_paths = {'g2': 300, 'b3': 60} if quick else {'q3': 2000, 'b3': 600}
    walks = {'q': 300, 'g2': 300, 'b3': 100} if quick else {'q3': 2500, 'g2': 800, 'b3': 800}
    old_cfgs = ['oldRace'] if quick else list(OLD)
    all_traces = []
    for name in exhaustive:
        cfgfile = CFGS[name][0]
        dump = name in graph_cfgs
        r = engine.tlc_check(ctx, SPEC, MOD, cfgfile, name='AdminOp/' + name, dump=dump, workers=workers,
                             timeout=900 if quick else 2400)
        if r.violation:
            ctx.inconclusive.append('spec invariant %s violated in config %s (specification defect, not a verdict '
                                    'about the code)' % (r.violation, name))
        if dump and r.scratch and not r.violation and not r.error:
            g = tlc.parse_dot(os.path.join(r.scratch, 'graph.dot'), drop_vars=DROP)
            # every block execution with a query parked at the precompile (ExecQ) first, then the general edge cover
            qpaths, qcov, qwant = tlc.edge_cover_paths(g, ctx.rng, max_len=graph_cfgs[name], only=lambda e: e[1] == 'ExecQ',
                                                       max_paths=race_paths.get(name)) if not name.startswith('t') else ([], 0, 0)
            ctx.cov['race_edges_covered'] = ctx.cov.get('race_edges_covered', 0) + len({k for p in qpaths for k in p if g.edges[k][1] == 'ExecQ'})
            ctx.cov['race_edges_total'] = ctx.cov.get('race_edges_total', 0) + qwant
            paths, cov, want = tlc.edge_cover_paths(g, ctx.rng, max_len=graph_cfgs[name], max_paths=max_paths.get(name))
            paths = qpaths + paths
            ctx.log('graph %s: %d states %d edges -> %d paths covering %d/%d edges' % (name, len(g.states), len(g.edges), len(paths), cov, want))
            ctx.cov.setdefault('graph_edges_covered', 0)
            ctx.cov['graph_edges_covered'] += cov
            ctx.cov.setdefault('graph_edges_total', 0)
            ctx.cov['graph_edges_total'] += want
            for k, p in enumerate(paths):
                if not name.startswith('t'):
                    p = drain_path(g, p)
                t = tlc.path_to_steps(g, p)
                t['cfg'] = tcfg(name)
                t['id'] = 'graph-%s-%d' % (name, k)
                all_traces.append(t)
            seen_walks = set()
            for k in range(walks.get(name, 0)):
                p = tuple(drain_path(g, random_walk(g, ctx.rng)))
                if not p or p in seen_walks or not drained(g.states[g.edges[p[-1]][3]]):
                    continue
                seen_walks.add(p)
                t = tlc.path_to_steps(g, list(p))
                t['cfg'] = tcfg(name)
                t['id'] = 'walk-%s-%d-%d' % (name, ctx.seed, k)
                all_traces.append(t)
            if walks.get(name):
                ctx.log('walks %s: %d distinct' % (name, len(seen_walks)))
            if name == 'b3':
                bw = batch_walks(g, ctx.rng, 60 if quick else 400)
                ctx.cov['batch_walks'] = len(bw)
                if not bw:
                    ctx.inconclusive.append('no behaviour with a membership change and a power change in one block was found in graph b3')
                for k, p in enumerate(bw):
                    t = tlc.path_to_steps(g, p)
                    t['cfg'] = tcfg(name)
                    t['id'] = 'batch-%s-%d-%d' % (name, ctx.seed, k)
                    all_traces.append(t)
        tlc.cleanup(r)
    # the specification must be able to tell the old behaviours from the fixed ones
    sens = {}
    for name in old_cfgs:
        r = tlc.run(SPEC, MOD, 'MC_AdminOp_%s.cfg' % name, workers=2, timeout=600)
        sens[name] = r.violation
        if not r.violation:
            ctx.inconclusive.append('spec sensitivity: configuration %s (pre-fix behaviour) violates nothing' % name)
    ctx.cov['spec_refutes_prefix_behaviour'] = sens
    # binding self-test: corrupted expectations must be rejected by the driver
    probes = []
    for t in all_traces:
        if len(probes) >= 2:
            break
        for si, s in enumerate(t['steps']):
            if s['a'] == 'Exec' and s['args'][1] == 'ok' and not any(p['kind'] == 'valset' for p in probes):
                p = copy.deepcopy(t)
                p['steps'] = p['steps'][:si + 1]
                rid = s['args'][0]
                vals = p['steps'][si]['post']['rep'][rid - 1]['vals']
                vals[0] = vals[0] + 1
                p['kind'] = 'valset'
                probes.append(p)
                break
            if s['a'] == 'Check' and not any(p['kind'] == 'check' for p in probes):
                p = copy.deepcopy(t)
                p['steps'] = p['steps'][:si + 1]
                p['steps'][si]['args'][1] = not p['steps'][si]['args'][1]
                p['kind'] = 'check'
                probes.append(p)
                break
    st = []
    for p in probes:
        kind = p.pop('kind')
        rep = engine.run_driver(ctx, 'adminop', [p])
        st.append('%s:%s' % (kind, 'rejected' if rep.get('failures') else 'ACCEPTED'))
        if not rep.get('failures'):
            ctx.inconclusive.append('binding self-test: corrupted %s expectation was accepted by the driver' % kind)
    if not probes:
        ctx.inconclusive.append('binding self-test: no probe could be built')
    ctx.cov['binding_selftest'] = ', '.join(st)

    ctx.log('replaying %d behaviours' % len(all_traces))
    rep = run_chunks(ctx, all_traces, nproc=3)
    nt = sum(1 for t in all_traces if nontrivial(t))
    ctx.cov['traces_validated_against_impl'] = rep['traces']
    ctx.cov['evaluations'] = rep['steps']
    ctx.cov['distinct_nontrivial'] = nt
    ctx.cov['rule'] = ('behaviours = edge-cover paths of the dumped state graphs (request machine: every transition, drained so '
                       'that both replicas execute every block; tally configs: every signature list up to length 3/4) + '
                       'distinct weighted random walks on the same graphs (accepted changes preferred, drained); non-trivial = contains an accepted change, a '
                       'nonce/sender/route rejection, a query, a re-sent transaction, a repeated or invalid signature entry, '
                       'or a failing EndBlock')
    ctx.cov['impl_checks'] = rep['checks']
    ctx.cov['driver_counters'] = rep.get('counters', {})
    ctx.cov['exhaustive'] = True
    for t in all_traces[:1] + [t for t in all_traces if t['id'].startswith('walk-')][:1]:
        ctx.sample({'id': t['id'], 'cfg': t['cfg'], 'actions': ['%s%s' % (s['a'], s['args']) for s in t['steps'][:6]]})
    ctx.assumptions += [
        'ed25519 / secp256k1 signatures are unforgeable (signature entries are symbolic in the spec: genuine over the request, '
        'genuine over another message, garbage)',
        'submitting accounts are externally owned accounts (a contract account never consumes its nonce, so a request bound to '
        'a contract address and nonce could be re-submitted through that contract)',
        'some validator keeps positive power (removing the last one stops every replica alike in IncrementAccum; state constraint Viable)',
        'both replicas execute blocks in place through State.ApplyBlock as the fast-sync executer does; the live path '
        '(cs.state.Copy() then ApplyBlock) differs only in which State object is mutated',
        'powers and signature lists are small (<= 4 nodes, lists <= 4 entries, <= 4 requests per behaviour)']
