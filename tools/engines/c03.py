"""C03 no equivocation across restarts: PrivVal.tla (signBytesHRS + save + WriteFileAtomic sub-steps, each of which
may fail or be the crash point, LoadPrivValidator after a crash) exhaustively model-checked; every edge of the state
graph of the small configuration and simulated behaviours of the large one are replayed on a real PrivValidator with
a real key and real files, crashing / failing at the WriteFileAtomic failpoints; every signature the real signer
releases is checked against the property directly (durable record on disk, no conflict, no regression)."""
import copy
import os

from .. import engine, tlc

SPEC = os.path.join(engine.VERIF, 'specs', 'privval')
DROP = ('res', 'bak', 'new', 'maxrel')   # output / not in the VIEW / ghost (the driver keeps the full release history)
WORKERS = int(os.environ.get('VERIF_TLC_WORKERS') or 8)
BLOCKS = ['A', 'B']

CFGS = {'g': 'MC_PrivVal_g.cfg', 'q': 'MC_PrivVal_q.cfg', 't': 'MC_PrivVal_t.cfg',
        'c': 'MC_PrivVal_c.cfg', 'cq': 'MC_PrivVal_cq.cfg'}   # c, cq: with a second, concurrent requester


def nontrivial(tr):
    """Non-trivial: contains a crash, a failing write, a reload, or a repeated (same HRS) request."""
    if tr['cfg']['kind'] == 'random':
        return True
    for s in tr['steps']:
        if s['a'] in ('Crash', 'Reload', 'Issue2'):
            return True
        if s['a'] in ('WriteBak', 'WriteNew', 'Rename', 'Return') and s['args'][0] != 'ok':
            return True
        if s['a'] == 'Request' and s['args'][4] == 'same':
            return True
    return False


def run(ctx, replay=None):
    engine.build_go(ctx, ['privval'])
    if replay is not None:
        rep = engine.run_driver(ctx, 'privval', [replay['trace']])
        engine.collect(ctx, rep, [replay['trace']], 'privval')
        ctx.cov['traces_validated_against_impl'] = 1
        ctx.cov['states'] = ctx.cov['transitions'] = max(1, len(replay['trace'].get('steps') or []))
        ctx.sample({'replayed': len(replay['trace'].get('steps') or [])})
        return

    quick = ctx.tier == 'quick'
    exhaustive = ['g', 'c', 'q'] if quick else ['g', 'c', 'q', 't', 'cq']
    graph_cfgs = ['g', 'c'] if quick else ['g', 'c', 'q']
    sim_cfgs = [('t', 150, 40)] if quick else [('t', 1500, 60)]
    all_traces = []
    for name in exhaustive:
        dump = name in graph_cfgs
        r = engine.tlc_check(ctx, SPEC, 'MC_PrivVal.tla', CFGS[name], name='PrivVal/' + name, dump=dump, workers=WORKERS,
                             timeout=600 if quick else 3000, coverage=(name in ('g', 'c')))
        if r.violation:
            ctx.inconclusive.append('spec property %s violated in config %s (specification defect, not a verdict '
                                    'about the code)' % (r.violation, name))
        if r.coverage:
            # g has no second requester, c has no crashes: an action is vacuous only if it never fires in either
            ac = ctx.cov.setdefault('action_coverage', {})
            for a, (d, t) in r.coverage.items():
                ac[a] = [ac.get(a, [0, 0])[0] + d, ac.get(a, [0, 0])[1] + t]
        if dump and r.scratch:
            g = tlc.parse_dot(os.path.join(r.scratch, 'graph.dot'), drop_vars=DROP)
            only = None
            max_paths = None
            if name == 'c':
                # two requesters: cover the transitions in which a second caller is issued, waits or is served
                only = lambda e: e[1] in ('Issue2', 'Enter2') or g.states[e[0]]['wait']['b'] != 'nofile'  # noqa: E731
                max_paths = 600 if quick else None
            elif name != 'g':
                # larger graph: the refused and the plain successful requests are the code paths already covered edge by
                # edge in g; here cover the crash / failing-write / reload / repeated-request transitions, within a budget
                only = lambda e: (e[1] in ('Crash', 'Reload') or (e[1] == 'Request' and e[2][4] == 'same') or  # noqa: E731
                                  (e[1] in ('WriteBak', 'WriteNew', 'Rename', 'Return') and e[2][0] != 'ok'))
                max_paths = 9000
            paths, cov, want = tlc.edge_cover_paths(g, ctx.rng, max_len=60, only=only, max_paths=max_paths)
            ctx.log('graph %s: %d states %d edges -> %d paths covering %d/%d edges' % (name, len(g.states), len(g.edges), len(paths), cov, want))
            ctx.cov['graph_edges_covered'] = ctx.cov.get('graph_edges_covered', 0) + cov
            ctx.cov['graph_edges_total'] = ctx.cov.get('graph_edges_total', 0) + want
            for k, p in enumerate(paths):
                t = tlc.path_to_steps(g, p)
                conc = any(s['a'] == 'Issue2' for s in t['steps'])
                t['cfg'] = {'kind': 'conc' if conc else 'model', 'Blocks': BLOCKS}
                t['id'] = 'graph-%s-%d' % (name, k)
                all_traces.append(t)
        tlc.cleanup(r)
    vac = [a for a, (d, t) in ctx.cov.get('action_coverage', {}).items() if t == 0]
    if vac:
        ctx.inconclusive.append('vacuous actions in PrivVal (g and c): %s' % vac)
    for name, num, depth in sim_cfgs:
        r, traces = tlc.simulate_traces(SPEC, 'MC_PrivVal.tla', CFGS[name], num, depth, ctx.seed, drop_vars=DROP)
        ctx.add_tlc('PrivVal/sim-' + name, r, exhaustive=False)
        for k, t in enumerate(traces):
            t['cfg'] = {'kind': 'model', 'Blocks': BLOCKS}
            t['id'] = 'sim-%s-%d-%d' % (name, ctx.seed, k)
            all_traces.append(t)
        ctx.log('simulated %s: %d behaviours' % (name, len(traces)))
    # the driver's own fault-heavy schedules (not from TLC): oracles only
    for k in range(20 if quick else 200):
        all_traces.append({'id': 'random-%d-%d' % (ctx.seed, k), 'init': {}, 'steps': [],
                           'cfg': {'kind': 'random', 'seed': ctx.seed * 1000 + k, 'steps': 300, 'maxH': 6, 'maxR': 3,
                                   'Blocks': ['A', 'B', 'C']}})

    # binding self-test: corrupted expectations must be rejected
    probes = []
    for t in all_traces:
        if t['cfg']['kind'] != 'model':
            continue
        for si, s in enumerate(t['steps']):
            if s['a'] == 'Return' and s['args'][0] == 'ok' and len(probes) == 0:
                p = copy.deepcopy(t)
                p['steps'] = p['steps'][:si + 1]
                p['steps'][si]['post']['main'] = dict(p['steps'][si]['post']['main'], b='B' if p['steps'][si]['post']['main']['b'] == 'A' else 'A')
                probes.append(p)
            if s['a'] == 'Request' and s['args'][4] == 'regress' and len(probes) == 1:
                p = copy.deepcopy(t)
                p['steps'] = p['steps'][:si + 1]
                p['steps'][si]['args'][4] = 'same'
                probes.append(p)
        if len(probes) >= 2:
            break
    ok = len(probes) == 2
    for p in probes:
        rep = engine.run_driver(ctx, 'privval', [p])
        if not rep.get('failures'):
            ok = False
    ctx.cov['binding_selftest'] = 'rejected' if ok else 'ACCEPTED'
    if not ok:
        ctx.inconclusive.append('binding self-test: a corrupted trace was accepted by the driver (or no probe found)')

    # the two-requester behaviours run in a driver process of their own (few goroutines: its scheduler reads goroutine states)
    conc_traces = [t for t in all_traces if t['cfg']['kind'] == 'conc']
    all_traces = [t for t in all_traces if t['cfg']['kind'] != 'conc']
    rep = engine.run_driver(ctx, 'privval', all_traces, timeout=3000)
    engine.collect(ctx, rep, all_traces, 'privval')
    ctx.log('replayed %d single-requester behaviours (%d steps)' % (rep['traces'], rep['steps']))
    if conc_traces:
        rep2 = engine.run_driver(ctx, 'privval', conc_traces, timeout=3000)
        ctx.log('replayed %d two-requester behaviours (%d steps)' % (rep2['traces'], rep2['steps']))
        engine.collect(ctx, rep2, conc_traces, 'privval')
        for k in ('traces', 'steps', 'checks'):
            rep[k] += rep2[k]
        for k, v in (rep2.get('counters') or {}).items():
            rep.setdefault('counters', {})[k] = rep['counters'].get(k, 0) + v
        ctx.cov['concurrent_behaviours'] = rep2['traces']
        all_traces = all_traces + conc_traces
    ctx.cov['traces_validated_against_impl'] = rep['traces']
    ctx.cov['evaluations'] = rep['steps']
    ctx.cov['distinct_nontrivial'] = sum(1 for t in all_traces if nontrivial(t))
    ctx.cov['rule'] = ('behaviours = edge-cover paths of the dumped state graph(s) (every transition once) + tlc -simulate '
                       'behaviours of the large configuration + seeded fault-heavy schedules of the driver; non-trivial = contains '
                       'a crash, a failing write, a reload or a repeated request; evaluations = spec steps executed on the real signer')
    ctx.cov['impl_checks'] = rep['checks']
    ctx.cov['driver_counters'] = rep.get('counters', {})
    ctx.cov['exhaustive'] = True
    for t in all_traces:
        if t['cfg']['kind'] == 'model' and nontrivial(t):
            ctx.sample({'id': t['id'], 'actions': ['%s%s' % (s['a'], s['args']) for s in t['steps'][:14]]}, limit=3)
    ctx.assumptions += ['process-crash model: a completed write/rename survives the crash of the process; power-loss durability '
                        '(WriteFileAtomic never fsyncs) is outside the model and not claimed',
                        'a crash is placed immediately before each of the three writes of WriteFileAtomic, between save() and the '
                        'return of the signature, and between calls; a torn .new file is never read by the code (only renamed when complete)',
                        'a failing write leaves the target untouched (failpoint returns the error before the write)',
                        'ed25519 signatures are deterministic and unforgeable; at most two concurrent callers of the signer (a second one issued while the first is parked at a WriteFileAtomic gate); they must be serialized by the mutex of the signer',
                        'the consensus layer reaches the signer only through SignVote / SignProposal (replay mode tolerating the '
                        'returned errors is exercised by the consensus checks, not here)']
