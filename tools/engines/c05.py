"""C05 replicated execution is deterministic: AppLifecycle.tla (over TxSem.tla) and the PlusCal ParVerify.tla are
model-checked exhaustively; every edge of the small AppLifecycle state graph, simulated behaviours of the large
alphabet, TLC counterexamples of the pre-repair code variants and forced verifier schedules are replayed on the
REAL EVMApp (real LevelDBs; restart = Stop + NewEVMApp + Start).  The driver additionally checks the relational
property directly: all replicas with the same committed chain (any restart placement, 1..16 verifier goroutines,
continuous vs. caught up later) return byte-identical CommitResults, partitions and query answers."""
import copy
import os

from .. import engine, tlc
from .c09 import cover_paths, run_parallel, TMP

SPEC = [os.path.join(engine.VERIF, 'specs', 'txexec'), os.path.join(engine.VERIF, 'specs', 'applifecycle')]
PSPEC = [os.path.join(engine.VERIF, 'specs', 'applifecycle')]
MODULE = 'MC_AppLifecycle.tla'
DROP = ()
W = 4

CFGS = {
    'g': ('MC_AppLifecycle_g.cfg', {'accts': [1], 'keys': ['k1']}),
    'm': ('MC_AppLifecycle_m.cfg', {'accts': [1], 'keys': ['k1']}),
    'q': ('MC_AppLifecycle_q.cfg', {'accts': [1], 'keys': ['k1']}),
    'l': ('MC_AppLifecycle_l.cfg', {'accts': [1, 2], 'keys': ['k1', 'k2']}),
}
WITNESS = {
    'prefix_kvs': ('MC_AppLifecycle_prefix_kvs.cfg', {'accts': [1], 'keys': ['k1']}),
    'prefix_hdr': ('MC_AppLifecycle_prefix_hdr.cfg', {'accts': [1], 'keys': ['k1']}),
    'prefix_trim': ('MC_AppLifecycle_prefix_trim.cfg', {'accts': [1], 'keys': ['k1']}),
}
PAR = {'q': 'MC_ParVerify_q.cfg', 'b': 'MC_ParVerify_b.cfg', 'w3': 'MC_ParVerify_w3.cfg'}


def nontrivial(tr):
    """contains a restart, a key-value or invalid transaction, or a contract transaction"""
    for s in tr['steps']:
        if s['a'] in ('Restart', 'CrashCommit'):
            return True
        if s['a'] == 'Execute':
            if any(t['c'] != 'xfer' for t in s['args'][0]):
                return True
    return False


def from_tlc_trace(trace, tcfg, tid):
    steps = []
    for label, st in trace[1:]:
        a, args = tlc.tlaval.parse_action_label(label)
        steps.append({'a': a, 'args': args, 'post': {k: v for k, v in st.items() if k not in DROP}})
    return {'id': tid, 'cfg': dict(tcfg, mode='oracle'), 'init': None, 'steps': steps}


def atx(c, a, n, k='-', v='-'):
    return {'c': c, 'a': a, 'n': n, 'k': k, 'v': v}


def hand_trace(tid, blocks, restarts=(), cfg=None, crashes=None):
    """engine-made behaviour (oracle mode): blocks = list of tx lists; restart after the heights in `restarts`;
    a negative entry -h restarts between Execute and Commit of height h (the block is executed again)."""
    t = {'id': tid, 'cfg': dict(cfg or {'accts': [1, 2], 'keys': ['k1', 'k2']}, mode='oracle'), 'init': None, 'steps': []}
    for h, b in enumerate(blocks, 1):
        t['steps'].append({'a': 'Execute', 'args': [b], 'post': None})
        if crashes and h in crashes:
            # crash inside OnCommit after crashes[h] groups of durable writes; the decided block is executed again
            t['steps'].append({'a': 'CrashCommit', 'args': [crashes[h]], 'post': None})
            t['steps'].append({'a': 'Execute', 'args': [b], 'post': None})
        if -h in restarts:
            t['steps'].append({'a': 'Restart', 'args': [], 'post': None})
            t['steps'].append({'a': 'Execute', 'args': [b], 'post': None})
        t['steps'].append({'a': 'Commit', 'args': [], 'post': None})
        t['steps'].append({'a': 'Query', 'args': ['state'], 'post': None})
        t['steps'].append({'a': 'Query', 'args': ['call'], 'post': None})
        if h in restarts:
            t['steps'].append({'a': 'Restart', 'args': [], 'post': None})
            t['steps'].append({'a': 'Query', 'args': ['state'], 'post': None})
            t['steps'].append({'a': 'Query', 'args': ['call'], 'post': None})
    return t


def run(ctx, replay=None):
    engine.build_go(ctx, ['evmapp'])
    if replay is not None:
        rep = engine.run_driver(ctx, 'evmapp', [replay['trace']], env={'TMPDIR': TMP})
        engine.collect(ctx, rep, [replay['trace']], 'evmapp')
        ctx.cov['traces_validated_against_impl'] = 1
        ctx.cov['states'] = ctx.cov['transitions'] = max(1, len(replay['trace']['steps']))
        ctx.sample({'replayed': len(replay['trace']['steps'])})
        return

    quick = ctx.tier == 'quick'
    traces = []

    # 1. AppLifecycle: exhaustive; state-graph edge cover of the small configuration
    for name in (['g', 'm'] if quick else ['g', 'm', 'q']):
        cfgfile, tcfg = CFGS[name]
        dump = name == 'g'
        r = engine.tlc_check(ctx, SPEC, MODULE, cfgfile, name='AppLifecycle/' + name, dump=dump, coverage=dump,
                             workers=1 if dump else W, timeout=400 if quick else 2400)
        if dump:
            # vacuity: every action of the specification fires (Query is exercised by the other configurations)
            vac = [a for a, (d, t) in r.coverage.items() if t == 0 and a not in ('Query', 'Next', 'CrashCommit')]
            ctx.cov['action_coverage'] = {a: list(v) for a, v in r.coverage.items()}
            if vac or not r.coverage:
                ctx.inconclusive.append('vacuous actions in AppLifecycle: %s' % vac)
        if r.violation:
            ctx.inconclusive.append('spec property %s violated in config %s (specification defect, not a verdict about the code)'
                                    % (r.violation, name))
        if dump and r.scratch:
            g = tlc.parse_dot(os.path.join(r.scratch, 'graph.dot'), drop_vars=DROP)
            paths, cov, want = cover_paths(g, ctx.rng, max_len=16)
            ctx.log('graph %s: %d states %d edges -> %d paths covering %d/%d edges' % (name, len(g.states), len(g.edges), len(paths), cov, want))
            ctx.cov['graph_edges_covered'] = cov
            ctx.cov['graph_edges_total'] = want
            for k, p in enumerate(paths):
                t = tlc.path_to_steps(g, p)
                t['cfg'] = dict(tcfg, mode='model')
                t['id'] = 'graph-%s-%d' % (name, k)
                traces.append(t)
        tlc.cleanup(r)

    # 2. ParVerify (PlusCal): every interleaving of the verifier goroutines with the executor
    for name in (['q'] if quick else ['q', 'b', 'w3']):
        r = engine.tlc_check(ctx, PSPEC, 'MC_ParVerify.tla', PAR[name], name='ParVerify/' + name, workers=W,
                             timeout=400 if quick else 2400)
        if r.violation:
            ctx.inconclusive.append('spec property %s violated in ParVerify/%s' % (r.violation, name))

    # 4. pre-repair code variants: TLC must find the violation; the counterexample is replayed on the real code
    wit = {}
    for name, (cfgfile, tcfg) in WITNESS.items():
        r = tlc.run(SPEC, MODULE, cfgfile, workers=1, timeout=300)
        wit[name] = r.violation
        if not r.violation or not r.trace:
            ctx.inconclusive.append('spec sensitivity: %s did not produce a counterexample' % name)
            continue
        traces.append(from_tlc_trace(r.trace, tcfg, 'witness-' + name))
    r = tlc.run(PSPEC, 'MC_ParVerify.tla', 'MC_ParVerify_prefix.cfg', workers=W, timeout=300)
    wit['parverify_prefix'] = r.violation
    if r.violation != 'FailedHasError':
        ctx.inconclusive.append('spec sensitivity: ParVerify with the original store order did not violate FailedHasError')
    r = tlc.run(PSPEC, 'MC_ParVerify.tla', 'MC_ParVerify_prefix_ori.cfg', workers=W, timeout=300)
    wit['parverify_prefix_ori'] = r.violation
    if r.violation != 'BytesReported':
        ctx.inconclusive.append('spec sensitivity: ParVerify with oribys stored after status Init did not violate BytesReported')
    ctx.cov['spec_sensitivity'] = wit

    # 5. simulated behaviours of the large alphabet
    sims = [('l', 60, 14)] if quick else [('l', 500, 18), ('q', 150, 14)]
    for name, num, depth in sims:
        cfgfile, tcfg = CFGS[name]
        r, ts = tlc.simulate_traces(SPEC, MODULE, cfgfile, num, depth, ctx.seed, drop_vars=DROP)
        ctx.add_tlc('AppLifecycle/sim-' + name, r, exhaustive=False)
        if r.violation:
            ctx.inconclusive.append('spec property %s violated on a simulated behaviour of config %s' % (r.violation, name))
            if r.trace:
                traces.append(from_tlc_trace(r.trace, tcfg, 'sim-counterexample-%s-%d' % (name, ctx.seed)))
        for k, t in enumerate(ts):
            t['cfg'] = dict(tcfg, mode='model')
            t['id'] = 'sim-%s-%d-%d' % (name, ctx.seed, k)
            traces.append(t)
        ctx.log('simulated %s: %d behaviours' % (name, len(ts)))

    # 6. engine-made chains over every class with restarts at every position (relational oracles only), and
    #    forced schedules of the parallel verifier (TLC-found interleaving: executor between the two stores)
    rich = [
        [atx('create', 1, 0), atx('kv', 2, 0, 'k1', 'a'), atx('badsig', 0, 0)],
        [atx('call', 1, 1), atx('kvbig', 2, 1, 'k2', 'b'), atx('value', 1, 2), atx('junk', 0, 0)],
        [],
        [atx('revert', 2, 2), atx('call', 2, 3), atx('kv', 1, 2, 'k1', 'b'), atx('empty', 0, 0), atx('admok', 1, 3)],
        [atx('oog', 1, 4), atx('kvbad', 1, 5), atx('xfer', 1, 5), atx('pre', 2, 4), atx('admshort', 2, 5), atx('xfer', 1, 5)],
    ]
    placements = [(), (1,), (2,), (3,), (4,), (1, 3), (-2,), (-4, 4), (1, 2, 3, 4)]
    if quick:
        placements = [placements[i] for i in sorted(ctx.rng.sample(range(len(placements)), 4))]
    for k, pl in enumerate(placements):
        traces.append(hand_trace('rich-restarts-%s' % '_'.join(str(x) for x in pl), rich, pl))
    bad = atx('badsig', 0, 0)
    for rt in (1, 2, 8, 16):
        t = hand_trace('gate-%d' % rt, [[bad, atx('xfer', 1, 0)], [atx('kv', 1, 1, 'k1', 'a'), bad, atx('xfer', 2, 0)]], (1,))
        t['cfg']['gate'] = True
        t['cfg']['routines'] = rt
        traces.append(t)

    # 7. state of the application PACKAGE (process-global, e.g. the VM configuration) must not leak from queries into
    #    block execution: a replica that answers contract-call queries between the blocks vs. a replica in a process
    #    of its own that answers none, on chains whose blocks reach the admin precompile through the Admin contract
    traces.append(hand_trace('query-then-admin', [[atx('create', 1, 0)], [atx('admok', 2, 0)], [atx('admok', 1, 1), atx('call', 2, 1)]], ()))
    for t in traces:
        if any(s['a'] == 'Execute' and any(x['c'] == 'admok' for x in s['args'][0]) for s in t['steps']):
            t['cfg']['isolated_reference'] = True
    ctx.cov['isolated_reference_traces'] = sum(1 for t in traces if t['cfg'].get('isolated_reference'))

    # 8. a crash inside OnCommit (durable-write failpoints between the trie commit, the receipts/kv batch, the key-history
    #    batch, "lastreceipts" and "lastblock"), restart, the decided block executed again: on a brand-new key, on a key
    #    with history, at every point; compared with the replicas that never crashed
    kvchain = [[atx('kv', 1, 0, 'k1', 'a'), atx('xfer', 2, 0)], [atx('kv', 1, 1, 'k1', 'b'), atx('kv', 2, 1, 'k2', 'a')],
               [atx('kv', 2, 2, 'k2', 'b'), atx('kv', 1, 2, 'k1', 'a'), atx('kv', 1, 3, 'k1', 'b')]]
    for j in (1, 2, 3, 4):
        traces.append(hand_trace('crash-in-commit-newkey-%d' % j, kvchain, (), crashes={1: j}))
    traces.append(hand_trace('crash-in-commit-later', kvchain, (2,), crashes={2: 3, 3: 4}))
    traces.append(hand_trace('crash-in-commit-twice', kvchain, (), crashes={1: 3, 3: 3}))

    # 9. a flood of bad signatures (>= number of signature-checking goroutines, then further transactions): replicas with
    #    1, 2, 8 goroutines and the package default must all execute the block, with the same result
    for rt, nbad in ((1, 2), (2, 3), (8, 9), (-1, 17)):
        t = hand_trace('badsig-flood-%s' % ('default' if rt < 0 else rt),
                       [[atx('badsig', 0, 0)] * nbad + [atx('xfer', 1, 0), atx('kv', 2, 0, 'k1', 'a')], [atx('xfer', 1, 1)]], ())
        t['cfg']['routines'] = rt
        traces.append(t)

    # binding self-test
    probe = None
    for t in traces:
        if t['cfg'].get('mode') != 'model':
            continue
        for si, s in enumerate(t['steps']):
            if s['a'] == 'Commit' and any(x['a'] == 'Execute' and x['post']['res']['valid'] for x in t['steps'][:si]):
                probe = copy.deepcopy(t)
                probe['steps'] = probe['steps'][:si + 1]
                probe['id'] = 'selftest'
                nn = probe['steps'][si]['post']['pS']['nonce']
                nn[0] = nn[0] + 1
                break
        if probe:
            break
    if probe:
        rep = engine.run_driver(ctx, 'evmapp', [probe], env={'TMPDIR': TMP})
        ctx.cov['binding_selftest'] = 'rejected' if rep.get('failures') else 'ACCEPTED'
        if not rep.get('failures'):
            ctx.inconclusive.append('binding self-test: corrupted trace was accepted by the driver')
    else:
        ctx.inconclusive.append('binding self-test: no probe trace found')

    rep = run_parallel(ctx, 'evmapp', traces, n=W, env={'TMPDIR': TMP})
    engine.collect(ctx, rep, traces, 'evmapp')
    ctx.cov['traces_validated_against_impl'] = rep['traces']
    ctx.cov['evaluations'] = rep['steps']
    ctx.cov['distinct_nontrivial'] = sum(1 for t in traces if nontrivial(t))
    ctx.cov['rule'] = ('behaviours = edge-cover paths of the dumped AppLifecycle state graph + tlc -simulate behaviours + TLC '
                       'counterexamples of the pre-repair variants + engine-made chains over all transaction classes with restart '
                       'placements + forced verifier schedules; non-trivial = contains a restart, an invalid / key-value / contract '
                       'transaction')
    ctx.cov['impl_checks'] = rep['checks']
    ctx.cov['driver_counters'] = rep.get('counters', {})
    ctx.cov['driver_extra'] = rep.get('extra', {})
    ctx.cov['exhaustive'] = True
    for t in traces[:2]:
        ctx.sample({'id': t['id'], 'cfg': t['cfg'], 'actions': [s['a'] for s in t['steps'][:14]]})
    ctx.assumptions += [
        'secp256k1 signatures are unforgeable; every balance is 0 (genesis funds nobody)',
        'a restart is Stop + NewEVMApp + Start on the same directories (no torn writes: crash atomicity is C06)',
        'goroutine schedules of the verifier: exhaustive in ParVerify.tla (2-3 workers, 2-3 txs); on the real code 1..16 workers under the '
        'Go scheduler plus the forced schedule at the Gate site',
        'contract-call queries are compared on the counter contract only (block-number/time dependent code is not modelled)',
    ]
