"""C13 fast sync: FastSync.tla model-checked exhaustively (urgent-step configurations that a driver can force on the
real goroutines AND the free interleaving of every step); every transition of the dumped state graph of the small
configuration plus sampled paths / simulated behaviours of the larger ones are replayed on a real fast-syncing node
(real BlockchainReactor + BlockPool + verifier/executer closures of Angine.assembleStateMachine on a real p2p Switch)
fed by scripted peers with real blocks and real commits, honest and tampered (driver cmd/fastsync)."""
import copy
import os

from .. import engine, tlc

SPEC = os.path.join(engine.VERIF, 'specs', 'fastsync')
MOD = 'MC_FastSync.tla'
DROP = ('last',)
ENV = ('Report', 'Deliver', 'Disconnect', 'Timeout')

CFGS = {
    # name: (cfg, peers, L)
    'q':   ('MC_FastSync_q.cfg',   ['p1', 'p2'], 3),
    'u4':  ('MC_FastSync_u4.cfg',  ['p1', 'p2'], 4),
    'u4m': ('MC_FastSync_u4m.cfg', ['p1', 'p2'], 4),
    'u3p': ('MC_FastSync_u3p.cfg', ['p1', 'p2', 'p3'], 4),
    'u3q': ('MC_FastSync_u3q.cfg', ['p1', 'p2', 'p3'], 3),
    'f3':  ('MC_FastSync_f3.cfg',  ['p1', 'p2'], 3),
}


def tcfg(name, k):
    _, peers, L = CFGS[name]
    # where the validator set changes (0 = never); chosen per behaviour, the specification abstracts from it
    change = [2, 0] + list(range(2, L + 1))
    return {'L': L, 'ChangeAt': change[k % len(change)], 'Peers': peers, 'Variant': k}


def trim(tr):
    """Cut a behaviour after its last complete group (environment step + following internal steps) and drop a
    leading internal step (cannot happen: Init is quiet)."""
    steps = tr['steps']
    while steps and steps[0]['a'] not in ENV:
        steps = steps[1:]
    tr['steps'] = steps
    return tr


INTERNAL = ('Assign', 'Sync', 'Switch')


def settle(g, path, limit=40):
    """Extend a path with internal steps until the node is quiescent (no Assign/Sync/Switch enabled): the real
    goroutines take these steps by themselves, a behaviour must not stop in the middle of them."""
    if not path:
        return path
    cur = g.edges[path[-1]][3]
    for _ in range(limit):
        nxt = [k for k in g.out.get(cur, []) if g.edges[k][1] in INTERNAL and g.edges[k][3] != cur]
        if not nxt:
            break
        # any order leads to the same quiescent state; take sync steps first as the 100 ms ticker does
        nxt.sort(key=lambda k: (INTERNAL.index(g.edges[k][1]) if g.edges[k][1] != 'Sync' else -1, k))
        path = path + [nxt[0]]
        cur = g.edges[nxt[0]][3]
    return path


def random_walk(g, rng, max_len=40):
    """A behaviour chosen step by step: internal steps as soon as they are enabled (as the real goroutines do), else an
    environment step, deliveries and high reports preferred so that the node actually syncs."""
    cur = rng.choice(g.init)
    path = []
    while len(path) < max_len:
        out = [k for k in g.out.get(cur, []) if g.edges[k][3] != cur]
        if not out:
            break
        internal = [k for k in out if g.edges[k][1] in INTERNAL]
        if internal:
            internal.sort(key=lambda k: (INTERNAL.index(g.edges[k][1]) if g.edges[k][1] != 'Sync' else -1, k))
            k = internal[0]
        else:
            def weight(k):
                _, a, args, _ = g.edges[k]
                if a == 'Deliver':
                    return 6.0 if args[2] == 'good' else 3.0
                if a == 'Report':
                    return 0.4 + args[1]
                return 0.5
            ws = [weight(k) for k in out]
            k = rng.choices(out, weights=ws)[0]
        path.append(k)
        cur = g.edges[k][3]
    return path


def applied(tr):
    return max([len(s['post'].get('applied', [])) for s in tr['steps']] or [0])


def nontrivial(tr):
    """Applies at least one block or contains a tampered delivery, a peer removal (disconnect, timeout, redo)."""
    for s in tr['steps']:
        if s['a'] in ('Disconnect', 'Timeout'):
            return True
        if s['a'] == 'Deliver' and s['args'][2] != 'good':
            return True
        if s['a'] == 'Sync':
            return True
    return False


def run(ctx, replay=None):
    engine.build_go(ctx, ['fastsync'])
    if replay is not None:
        rep = engine.run_driver(ctx, 'fastsync', [replay['trace']], env={'VERIF_FS_WORKERS': '1'})
        engine.collect(ctx, rep, [replay['trace']], 'fastsync')
        ctx.cov['traces_validated_against_impl'] = 1
        ctx.cov['states'] = ctx.cov['transitions'] = max(1, len(replay['trace']['steps']))
        ctx.sample({'replayed': len(replay['trace']['steps'])})
        return

    quick = ctx.tier == 'quick'
    exhaustive = ['q', 'f3'] if quick else ['q', 'f3', 'u4', 'u3q', 'u4m']
    graph_cfgs = {'q': (26, 200)} if quick else {'q': (26, 600), 'u4': (34, 300), 'u3q': (30, 200)}
    walks = {'q': 200} if quick else {'q': 200, 'u4': 300, 'u3q': 200}
    all_traces = []
    for name in exhaustive:
        cfgfile = CFGS[name][0]
        dump = name in graph_cfgs
        r = engine.tlc_check(ctx, SPEC, MOD, cfgfile, name='FastSync/' + name, dump=dump, workers=4,
                             timeout=900 if quick else 2400)
        if r.violation:
            ctx.inconclusive.append('spec invariant %s violated in config %s (specification defect, not a verdict '
                                    'about the code)' % (r.violation, name))
        if dump and r.scratch and not r.violation and not r.error:
            g = tlc.parse_dot(os.path.join(r.scratch, 'graph.dot'), drop_vars=DROP)
            max_len, max_paths = graph_cfgs[name]
            paths, cov, want = tlc.edge_cover_paths(g, ctx.rng, max_len=max_len, max_paths=max_paths)
            ctx.log('graph %s: %d states %d edges -> %d paths covering %d/%d edges' % (name, len(g.states), len(g.edges), len(paths), cov, want))
            ctx.cov.setdefault('graph_edges_covered', 0)
            ctx.cov['graph_edges_covered'] += cov
            ctx.cov.setdefault('graph_edges_total', 0)
            ctx.cov['graph_edges_total'] += want
            for k, p in enumerate(paths):
                t = trim(tlc.path_to_steps(g, settle(g, p)))
                if not t['steps']:
                    continue
                t['cfg'] = tcfg(name, k + ctx.seed)
                t['id'] = 'graph-%s-%d' % (name, k)
                all_traces.append(t)
            seen_walks = set()
            for k in range(walks.get(name, 0)):
                p = tuple(settle(g, random_walk(g, ctx.rng)))
                if not p or p in seen_walks:
                    continue
                seen_walks.add(p)
                t = trim(tlc.path_to_steps(g, list(p)))
                if not t['steps']:
                    continue
                t['cfg'] = tcfg(name, k + 7 * ctx.seed)
                t['id'] = 'walk-%s-%d-%d' % (name, ctx.seed, k)
                all_traces.append(t)
            ctx.log('walks %s: %d distinct' % (name, len(seen_walks)))
        tlc.cleanup(r)
    # the specification of the code BEFORE the fix must be refuted by TLC (sensitivity of the model)
    r = tlc.run(SPEC, MOD, 'MC_FastSync_old.cfg', workers=2, timeout=600)
    ctx.cov['spec_refutes_prefix_behaviour'] = {'old': r.violation}
    if not r.violation:
        ctx.inconclusive.append('spec sensitivity: the unguarded configuration violates nothing')

    # prefer behaviours that make progress: order by number of applied blocks, keep all (bounded above by max_paths)
    all_traces.sort(key=lambda t: (-applied(t), t['id']))

    # binding self-test: a corrupted expectation must be rejected by the driver
    probe = None
    for t in all_traces:
        for si, s in enumerate(t['steps']):
            if s['a'] == 'Sync' and s['args'][0] == 'apply':
                probe = copy.deepcopy(t)
                probe['steps'] = probe['steps'][:si + 1]
                # claims a block more than was applied, from a peer height nobody reported (cannot be reached
                # later either)
                post = probe['steps'][si]['post']
                post['height'] += 1
                post['applied'].append('good')
                for pn in post['peerH']:
                    post['peerH'][pn] += 1
                break
        if probe:
            break
    if probe:
        rep = engine.run_driver(ctx, 'fastsync', [probe], env={'VERIF_FS_WORKERS': '1', 'VERIF_FS_WAIT_MS': '3000'})
        ctx.cov['binding_selftest'] = 'rejected' if rep.get('failures') else 'ACCEPTED'
        if not rep.get('failures'):
            ctx.inconclusive.append('binding self-test: corrupted trace was accepted by the driver')
    else:
        ctx.inconclusive.append('binding self-test: no probe could be built')

    ctx.log('replaying %d behaviours' % len(all_traces))
    rep = engine.run_driver(ctx, 'fastsync', all_traces, timeout=3000, env={'VERIF_FS_WORKERS': '6' if quick else '8'})
    engine.collect(ctx, rep, all_traces, 'fastsync')
    nt = sum(1 for t in all_traces if nontrivial(t))
    ctx.cov['traces_validated_against_impl'] = rep['traces']
    ctx.cov['evaluations'] = rep['steps']
    ctx.cov['distinct_nontrivial'] = nt
    ctx.cov['rule'] = ('behaviours = edge-cover paths of the dumped state graphs of the urgent-step configurations (distinct edge '
                       'sets) + distinct weighted random walks on the same graphs (deliveries preferred), each run against a source chain whose validator-set change height and tampering variant are '
                       'chosen from the behaviour index and seed; non-trivial = contains a sync step, a tampered delivery or a '
                       'peer removal')
    ctx.cov['impl_checks'] = rep['checks']
    ctx.cov['driver_counters'] = rep.get('counters', {})
    ctx.cov['exhaustive'] = True
    for t in all_traces[:2]:
        ctx.sample({'id': t['id'], 'cfg': t['cfg'], 'actions': ['%s%s' % (s['a'], s['args']) for s in t['steps'][:14]]})
    ctx.assumptions += [
        'ed25519 signatures are unforgeable: a malicious peer can re-arrange, drop or re-label genuine precommits but not create them',
        'the validators that signed the source chain are honest (no two +2/3 commits for one height)',
        'replayed schedules are those a driver can force on the real goroutines: the environment moves when the pool and the '
        'sync loop are quiescent, reported heights never leave the pool a choice between peers, a peer never reports less than '
        'it is serving (the free interleaving of all steps is model-checked in configuration f3, not replayed)',
        'peer response timeouts are fired through bpPeer.onTimeout (the callback of the 15 s timer), the receive-rate check '
        '(removeTimedoutPeers, 40 s window) does not trigger within a behaviour',
        'source chains have 3-4 blocks, one validator-set change, 2-3 peers, at most 2 tampered deliveries per behaviour',
        'the application is a deterministic in-memory one; validator changes go through Angine.ExecAdminTx and the adminOp plugin']
