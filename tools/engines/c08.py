"""C08 no peer input crashes or wedges a node.

PeerInput.tla (an instance of Tendermint.tla with one honest validator T) is model-checked: every situation x every
message class has exactly one outcome in {Accept, Drop, Disconnect}, what is not accepted leaves the node record
unchanged, what is accepted changes it as Tendermint's handleMsg does.  The state graph is the test plan: every
Input edge (quick: a seeded stratified sample) is concretised with real keys, encoded with go-wire and pushed through
the REAL ConsensusReactor.Receive -> peerMsgQueue -> handleMsg of a real node that csim brought into the situation;
a panic on the consensus goroutine, a changed consensus state for a non-accepted message, or a node that does not
commit its height when honest traffic follows is a VIOLATION.  Engine-made extras without a model outcome: bounded byte
mutations of the model-chosen encodings, proposals for bytes that are not a block, gossip routines reading a PeerState
poisoned through Receive, blockchain / mempool / PEX reactors."""
import copy
import json
import os
import re
import shutil
import threading
import time

from .. import engine, tlc, tlaval
from . import tm_common as tm

LEVEL = 'model_checking'
SPEC = os.path.join(engine.VERIF, 'specs', 'peerinput')
SITS = ['NewHeight', 'Propose', 'ProposeProp', 'Prevote', 'Precommit', 'PolkaUnknown', 'CommitWait', 'NewHeight2', 'Round1',
        'FastSync']
SCENARIOS = ['block-garbage', 'block-zero-bytes', 'block-nil-header', 'block-nil-data', 'block-nil-lastcommit',
             'block-truncated', 'block-nil-precommit-entries', 'same-header-other-body-late-parts',
             'same-header-other-data-late-parts'] + ['block-absurd-length-%d' % k for k in range(6)]
POISONS = ['valid'] + ['commitstep-' + b for b in ('ok', 'nilptr', 'short', 'long', 'few', 'many', 'negbits', 'huge')] + \
          ['pol-' + b for b in ('ok', 'nilptr', 'short', 'long', 'few', 'many', 'negbits', 'huge')] + \
          ['nrs-neg-height', 'nrs-huge-height', 'nrs-prev-height', 'nrs-neg-round', 'nrs-huge-round', 'nrs-huge-step',
           'proposal-neg-total', 'proposal-pol-huge']
DRIVER = 'peerinput'
WORKERS = 4


def write_mc(ctx, d, pairwise, sits=None):
    """MC module + cfg in scratch dir d, proposer tables from the real ValidatorSet, T = a validator that proposes in none
    of the rounds the situations use."""
    tab = tm.proposer_tables(ctx, [1, 1, 1, 1], 3, 3)
    live, stale = tab['LiveProp'], tab['StaleProp']
    busy = {live[0][0], live[0][1], live[0][2], live[1][0], live[1][1]}
    free = [i for i in (4, 3, 2, 1) if i not in busy]
    if not free:
        raise engine.Inconclusive('no validator is free of proposer duty in rounds (1,0..2),(2,0..1): %s' % live)
    T = free[0]
    mod = ['---- MODULE MC_PeerInput ----', 'EXTENDS PeerInput', 'PowerT == <<1, 1, 1, 1>>', 'LiveT == ' + tm.tla_seq(live),
           'StaleT == ' + tm.tla_seq(stale), 'MCPower == [i \\in 1..4 |-> PowerT[i]]', 'MCNextPower == <<>>',
           'MCLive == [h \\in 1..%d |-> [r \\in 0..3 |-> LiveT[h][r + 1]]]' % len(live),
           'MCStale == [h \\in 1..%d |-> StaleT[h]]' % len(stale),
           'MCSits == {%s}' % ', '.join('"%s"' % s for s in (sits or SITS)), '====']
    with open(os.path.join(d, 'MC_PeerInput.tla'), 'w') as f:
        f.write('\n'.join(mod) + '\n')
    cfg = open(os.path.join(SPEC, 'MC_PeerInput_q.cfg')).read()
    cfg = re.sub(r'Byz = \{[^}]*\}', 'Byz = {%s}' % ', '.join(str(i) for i in range(1, 5) if i != T), cfg)
    cfg = re.sub(r'\bT = \d+', 'T = %d' % T, cfg)
    cfg = re.sub(r'Pairwise = \w+', 'Pairwise = %s' % ('TRUE' if pairwise else 'FALSE'), cfg)
    with open(os.path.join(d, 'MC_gen.cfg'), 'w') as f:
        f.write(cfg)
    return T


def _unesc(t):
    return t.replace('\\n', '\n').replace('\\"', '"').replace('\\\\', '\\')


def read_plan(path):
    """Light reader of TLC's dot dump: every state carries the action that led to it in `act` (no VIEW), so the states ARE
    the plan.  Returns (setups {sit: {'pre', 'node'}}, pairs [{'sit','m','o','node' (Accept only)}], others)."""
    setups, pairs, others = {}, [], []
    sep = '\\n/\\\\ '
    with open(path, encoding='utf8', errors='replace') as f:
        for line in f:
            i = line.find(' [label="')
            if i < 0 or '->' in line[:i]:
                continue
            j = line.rfind('"')
            raw = line[i + 9:j]
            if raw.startswith('/\\\\ '):
                raw = raw[4:]
            parts = {}
            for chunk in raw.split(sep):
                k = chunk.find(' = ')
                if k > 0:
                    parts[chunk[:k].strip()] = chunk[k + 3:]
            act = tlaval.parse_value(_unesc(parts['act']))
            if act[0] == 'Setup':
                setups[act[1]] = {'pre': act[2], 'node': tlaval.parse_value(_unesc(parts['node']))}
            elif act[0] == 'Input':
                p = {'sit': tlaval.parse_value(_unesc(parts['sit'])), 'm': act[1], 'o': act[2]}
                if act[2] == 'Accept':
                    p['node'] = tlaval.parse_value(_unesc(parts['node']))
                pairs.append(p)
            elif act[0] == 'Other':
                others.append(act[1:4])
    return setups, pairs, sorted(others)


def label(m):
    return ','.join('%s=%s' % (k, v) for k, v in sorted(map(tuple, m['d']))) or 'valid'


def is_huge(m):
    return any(v == 'huge' and k in ('ba', 'pt') for k, v in m['f'].items())


def setup_step(sit, setups, with_node=True):
    s = setups[sit]
    return {'a': 'Setup', 'args': [sit, s['pre']], 'post': {'node': s['node']} if with_node else {}}


def input_step(p):
    return {'a': 'Input', 'args': [p['m'], p['o']], 'post': {'node': p['node']} if 'node' in p else {}}


def make_traces(T, setups, pairs, batch, wire_every=0):
    """Group pairs into traces: per situation, batches of non-accepted inputs (the node is unchanged after each, which the
    driver verifies), each accepted input ends its trace; absurd-size classes get their own traces (child process)."""
    traces = []
    by_sit = {}
    for p in pairs:
        by_sit.setdefault(p['sit'], []).append(p)
    n = 0
    for sit in sorted(by_sit):
        plain = [p for p in by_sit[sit] if p['o'] != 'Accept' and not is_huge(p['m'])]
        huge = [p for p in by_sit[sit] if is_huge(p['m'])]
        acc = [p for p in by_sit[sit] if p['o'] == 'Accept' and not is_huge(p['m'])]
        chunks = [plain[i:i + batch] for i in range(0, len(plain), batch)]
        chunks += [huge[i:i + 6] for i in range(0, len(huge), 6)]
        nbase = len(chunks)
        for k, a in enumerate(acc):
            # an accepted input closes a batch
            if k < nbase and not any(is_huge(x['m']) for x in chunks[k]):
                chunks[k] = chunks[k] + [a]
            else:
                chunks.append([a])
        for c in chunks:
            n += 1
            wire = bool(wire_every) and n % wire_every == 0 and not any(is_huge(x['m']) for x in c)
            traces.append({'id': 'plan-%s-%d' % (sit, n), 'cfg': {'T': T, 'wire': wire},
                           'steps': [setup_step(sit, setups)] + [input_step(p) for p in c]})
    return traces


def sample_pairs(pairs, rng, per_stratum, frac):
    strata = {}
    for p in pairs:
        strata.setdefault((p['sit'], p['m']['t'], p['o'], is_huge(p['m'])), []).append(p)
    out = []
    for k in sorted(strata):
        l = strata[k]
        rng.shuffle(l)
        take = min(len(l), per_stratum + int(frac * max(0, len(l) - per_stratum)))
        if k[3]:
            take = min(len(l), 1 + (1 if rng.random() < 0.3 else 0))
        out += l[:take]
    return out


# classes that exposed genuine defects (all repaired, see KNOWN_FINDINGS.jsonl): always part of the quick sample
SENTINELS = [('Vote', 'ix=neg1'), ('Vote', 'ad=empty'), ('Vote', 'ix=neg64'), ('Vote', 'r=neg1'), ('Vote', 'r=far'), ('Vote', 'h=prev'),
             ('Vote', 'sg=bad'), ('Proposal', 'pt=huge'), ('Proposal', 'pt=neg1'), ('Proposal', 'pt=zero'), ('Proposal', 'sg=bad'),
             ('Proposal', 'pp=nil'), ('BlockPart', 'pa=nil'), ('BlockPart', 'pi=neg1'), ('CommitStep', 'ba=nilptr'),
             ('CommitStep', 'ba=few'), ('CommitStep', 'ba=huge'), ('ProposalPOL', 'ba=few'), ('VoteSetBits', 'ba=huge'),
             ('VoteSetBits', 'ba=few'), ('HasVote', 'ix=neg64'), ('VoteSetMaj23', 'r=huge')]


def sentinel_pairs(pairs, rng):
    """Every pair of a sentinel class (all base variants, also with the 'full' peer state) in one seeded situation."""
    sits = sorted({p['sit'] for p in pairs if p['sit'] != 'FastSync'})
    out = []
    for t, lab in SENTINELS:
        sit = rng.choice(sits)
        if (t, lab) == ('Vote', 'h=prev') and 'NewHeight' in sits:
            sit = 'NewHeight'      # the only situation with no last commit
        out += [p for p in pairs if p['sit'] == sit and p['m']['t'] == t and label(p['m']) in (lab, lab + ',ps=full')]
    return out


def base_msg(pairs, sit, t):
    for p in pairs:
        if p['sit'] == sit and p['m']['t'] == t and not p['m']['d']:
            return p['m']
    return None


def extra_traces(ctx, T, setups, pairs, quick, sits=None):
    """Engine-made steps (no model outcome): baselines, byte mutations, non-block proposals, poisoned gossip."""
    rng = ctx.rng
    out = []
    SITS = sits or globals()['SITS']
    for sit in SITS:
        out.append({'id': 'baseline-' + sit, 'cfg': {'T': T}, 'steps': [setup_step(sit, setups)]})
    types = ['NewRoundStep', 'CommitStep', 'Proposal', 'ProposalPOL', 'BlockPart', 'Vote', 'HasVote', 'VoteSetMaj23', 'VoteSetBits']
    msits = rng.sample([x for x in SITS if x != 'FastSync'], 2) if quick else SITS
    for sit in msits:
        for t in (rng.sample(types, 4) if quick else types):
            m = base_msg(pairs, sit, t)
            if m is None:
                continue
            for ps in (['synced'] if quick else ['synced', 'full']):
                mm = dict(m, ps=ps)
                out.append({'id': 'mutate-%s-%s-%s' % (sit, t, ps), 'cfg': {'T': T},
                            'steps': [setup_step(sit, setups), {'a': 'Mutate', 'args': [mm, 24 if quick else 0], 'post': {}}]})
    ssits = [x for x in ['Propose', 'Round1', 'NewHeight2', 'NewHeight', 'ProposeProp'] if x in SITS]
    for sit in (rng.sample(ssits, min(2, len(ssits))) if quick else ssits):
        for sc in (rng.sample(SCENARIOS, 3) if quick else SCENARIOS):
            out.append({'id': 'scenario-%s-%s' % (sit, sc), 'cfg': {'T': T},
                        'steps': [setup_step(sit, setups), {'a': 'Scenario', 'args': [sc], 'post': {}}]})
    if quick:
        # always: the Byzantine body with the voted header, votes for the genuine block before any genuine part
        lsits = [x for x in ssits if x != 'ProposeProp'] or ssits
        have = {t['id'] for t in out}
        # ... and a block whose encoding carries a length prefix close to MaxInt64 (two of the six placements)
        for sc in ('same-header-other-body-late-parts', 'same-header-other-data-late-parts') + \
                tuple(rng.sample([x for x in SCENARIOS if x.startswith('block-absurd-length-')], 2)):
            sit = rng.choice(lsits)
            tid = 'scenario-%s-%s' % (sit, sc)
            if tid not in have:
                out.append({'id': tid, 'cfg': {'T': T}, 'steps': [setup_step(sit, setups), {'a': 'Scenario', 'args': [sc], 'post': {}}]})
    gsits = [x for x in ['ProposeProp', 'Prevote', 'CommitWait', 'NewHeight2', 'Round1', 'FastSync'] if x in SITS]
    for sit in (rng.sample(gsits, min(2, len(gsits))) if quick else gsits):
        for po in (rng.sample(POISONS, 5) if quick else POISONS):
            out.append({'id': 'gossip-%s-%s' % (sit, po), 'cfg': {'T': T},
                        'steps': [setup_step(sit, setups), {'a': 'Gossip', 'args': [po, 260 if quick else 450], 'post': {}}]})
    return out


def run_parallel(ctx, traces, workers=WORKERS, timeout=3000):
    """Run the driver on `workers` slices of the trace list concurrently; merge the reports."""
    slices = [traces[i::workers] for i in range(workers)]
    index = [list(range(len(traces)))[i::workers] for i in range(workers)]
    reps = [None] * workers
    errs = []

    def work(k):
        try:
            reps[k] = engine.run_driver(ctx, DRIVER, slices[k], timeout=timeout) if slices[k] else {'traces': 0, 'steps': 0, 'checks': 0, 'failures': []}
        except engine.Inconclusive as e:
            errs.append(str(e))

    th = [threading.Thread(target=work, args=(k,)) for k in range(workers)]
    for t in th:
        t.start()
    for t in th:
        t.join()
    if errs:
        raise engine.Inconclusive(errs[0])
    rep = {'traces': 0, 'steps': 0, 'checks': 0, 'failures': [], 'counters': {}}
    for k, r in enumerate(reps):
        for key in ('traces', 'steps', 'checks'):
            rep[key] += r.get(key, 0)
        for c, v in (r.get('counters') or {}).items():
            rep['counters'][c] = max(rep['counters'].get(c, 0), v) if c == 'max_alloc_bytes' else rep['counters'].get(c, 0) + v
        for f in (r.get('failures') or []):
            f = dict(f)
            f['trace'] = index[k][f.get('trace', 0)]
            rep['failures'].append(f)
    return rep


def shrink_replays(ctx, traces):
    """A failure inside a batch is replayed from [Setup, the failing step] alone."""
    for f in ctx.failures:
        rp = f.get('replay') or {}
        tr = rp.get('trace')
        st = f.get('step')
        if tr and isinstance(st, int) and 1 <= st < len(tr['steps']) and len(tr['steps']) > 2 and tr['steps'][st]['a'] == 'Input':
            rp['trace'] = {'id': tr['id'] + '-step%d' % st, 'cfg': tr['cfg'], 'steps': [tr['steps'][0], tr['steps'][st]]}
        elif tr and isinstance(st, int) and 0 <= st < len(tr['steps']) and len(tr['steps']) > 1 and tr['steps'][st]['a'] == 'Other':
            rp['trace'] = {'id': tr['id'] + '-step%d' % st, 'cfg': tr['cfg'], 'steps': [tr['steps'][st]]}


def run(ctx, replay=None):
    engine.build_go(ctx, ['csim', DRIVER])
    if replay is not None:
        rep = engine.run_driver(ctx, DRIVER, [replay['trace']], timeout=900)
        engine.collect(ctx, rep, [replay['trace']], DRIVER)
        ctx.cov['traces_validated_against_impl'] = 1
        ctx.cov['states'] = ctx.cov['transitions'] = max(1, len(replay['trace']['steps']))
        ctx.sample({'replayed': len(replay['trace']['steps'])})
        return
    quick = ctx.tier == 'quick'
    d = tlc.scratch_copy([tm.SPEC, SPEC], prefix='vpi')
    try:
        # quick: four seeded situations + fast sync (every situation is reached over the seeds); thorough: all ten
        # (one of them always a situation in which the node still takes the round's proposal: the scripted scenarios need it)
        if quick:
            must = ctx.rng.choice(['Propose', 'Round1', 'NewHeight', 'NewHeight2'])
            sits = sorted([must] + ctx.rng.sample([x for x in SITS[:-1] if x != must], 3)) + ['FastSync']
        else:
            sits = list(SITS)
        T = write_mc(ctx, d, pairwise=not quick, sits=sits)
        r = engine.tlc_check(ctx, d, 'MC_PeerInput.tla', 'MC_gen.cfg', name='PeerInput/' + ('single' if quick else 'pairwise'),
                             workers=WORKERS, timeout=600 if quick else 2400, dump=True)
        if r.violation:
            ctx.inconclusive.append('spec property %s violated (a defect of the specification, not a verdict about the code)' % r.violation)
        if not r.scratch or not os.path.exists(os.path.join(r.scratch, 'graph.dot')):
            raise engine.Inconclusive('TLC produced no state graph: %s' % (r.error or r.out[-1500:]))
        t0 = time.time()
        setups, pairs, others = read_plan(os.path.join(r.scratch, 'graph.dot'))
        ctx.log('plan: %d situations, %d (situation, message class) pairs read in %.1fs' % (len(setups), len(pairs), time.time() - t0))
        tlc.cleanup(r)
    finally:
        shutil.rmtree(d, ignore_errors=True)
    if set(setups) != set(sits) or not pairs:
        raise engine.Inconclusive('state graph incomplete: situations %s' % sorted(setups))
    out = {}
    for p in pairs:
        out[p['o']] = out.get(p['o'], 0) + 1
    chosen = pairs
    if quick:
        chosen = sample_pairs(pairs, ctx.rng, 2, 0.035)
        have = {id(p) for p in chosen}
        chosen += [p for p in sentinel_pairs(pairs, ctx.rng) if id(p) not in have]
    traces = make_traces(T, setups, chosen, batch=20, wire_every=7)
    extras = extra_traces(ctx, T, setups, pairs, quick, sits)
    osel = others
    if quick:
        # always: the block-response classes whose failure mode is a silent wedge of fast sync; plus a seeded sample
        osel = [o for o in others if o[0] == 'bc' and o[1].startswith('response-')]
        late = [o for o in others if o[0] == 'bc' and o[1].startswith('commit-late-')]
        osel += [o for o in late if o[1] == 'commit-late-badsig'] + ctx.rng.sample([o for o in late if o[1] != 'commit-late-badsig'], 2)
        for rc, k in (('bc', 2), ('mempool', 3), ('pex', 3)):
            l = [o for o in others if o[0] == rc and o not in osel]
            osel += ctx.rng.sample(l, min(k, len(l)))
    # one child process per batch (the blockchain classes share the reference chain it builds once)
    for rc in ('bc', 'mempool', 'pex'):
        l = [o for o in osel if o[0] == rc]
        ctx.rng.shuffle(l)
        size = 5 if rc == 'bc' else 20
        for i in range(0, len(l), size):
            extras.append({'id': 'other-%s-%d' % (rc, i // size), 'cfg': {},
                           'steps': [{'a': 'Other', 'args': list(o), 'post': {}} for o in l[i:i + size]]})
    ctx.log('%d of %d pairs in %d traces + %d engine-made traces' % (len(chosen), len(pairs), len(traces), len(extras)))

    # binding self-test: an accepted input declared "Drop" must be reported as a state change; a dropped input
    # declared "Accept" and a corrupted expected node must be reported as mismatches
    acc = next((p for p in pairs if p['o'] == 'Accept' and p['m']['t'] == 'Vote' and not is_huge(p['m'])), None)
    drp = next((p for p in pairs if p['o'] == 'Drop' and p['m']['t'] == 'Vote' and p['m']['d'] and not is_huge(p['m'])), None)
    probes = []
    if acc and drp:
        p1 = dict(acc, o='Drop')
        p1.pop('node', None)
        probes.append({'id': 'selftest-accept-as-drop', 'cfg': {'T': T}, 'steps': [setup_step(acc['sit'], setups), input_step(p1)]})
        probes.append({'id': 'selftest-drop-as-accept', 'cfg': {'T': T}, 'steps': [setup_step(drp['sit'], setups), input_step(dict(drp, o='Accept'))]})
        bad = copy.deepcopy(setups[acc['sit']])
        node = bad['node']
        first = node[sorted(node)[0]] if isinstance(node, dict) else node[0]
        first['st'] = 8 if first.get('st') != 8 else 1
        probes.append({'id': 'selftest-wrong-situation', 'cfg': {'T': T},
                       'steps': [{'a': 'Setup', 'args': [acc['sit'], bad['pre']], 'post': {'node': node}}]})
        prep = engine.run_driver(ctx, DRIVER, probes, timeout=300)
        got = sorted({(f.get('trace_id'), f.get('key', '').split(':')[0]) for f in prep.get('failures') or []})
        want = {('selftest-accept-as-drop', 'state-changed'), ('selftest-drop-as-accept', 'outcome'), ('selftest-wrong-situation', 'situation')}
        ok = want <= set(got)
        ctx.cov['binding_selftest'] = 'rejected' if ok else 'ACCEPTED %s' % got
        if not ok:
            ctx.inconclusive.append('binding self-test: corrupted expectations were not all rejected: %s' % got)
    else:
        ctx.inconclusive.append('binding self-test: no accepted/dropped vote class in the plan')

    all_traces = traces + extras
    t0 = time.time()
    rep = run_parallel(ctx, all_traces, timeout=1500 if quick else 3600)
    ctx.log('driver: %d traces, %d steps, %d checks, %d failures in %.1fs' % (rep['traces'], rep['steps'], rep['checks'],
                                                                         len(rep['failures']), time.time() - t0))
    engine.collect(ctx, rep, all_traces, DRIVER)
    shrink_replays(ctx, all_traces)
    cnt = rep.get('counters', {})
    ctx.cov['traces_validated_against_impl'] = rep['traces']
    ctx.cov['evaluations'] = cnt.get('inputs', 0) + cnt.get('mutants', 0) + cnt.get('scenario_messages', 0) + cnt.get('gossip_runs', 0) + cnt.get('other_inputs', 0)
    ctx.cov['impl_checks'] = rep['checks']
    ctx.cov['pairs_in_model'] = len(pairs)
    ctx.cov['pairs_replayed'] = cnt.get('inputs', 0)
    ctx.cov['model_outcomes'] = out
    ctx.cov['real_outcomes'] = {k[4:]: v for k, v in cnt.items() if k.startswith('got-')}
    ctx.cov['situations'] = len(setups)
    ctx.cov['situations_this_run'] = sits
    ctx.cov['message_types'] = len({p['m']['t'] for p in pairs})
    distinct = {(p['sit'], p['m']['t'], label(p['m']), p['m']['ps'], p['m']['ch']) for p in chosen}
    ctx.cov['distinct_nontrivial'] = len({x for x in distinct if x[2] != 'valid'})
    ctx.cov['rule'] = ('one evaluation = one message (a model class, a byte mutant, a scenario message) through the real Receive -> '
                       'queue -> handleMsg path, or one bounded run of the three gossip routines; distinct = distinct '
                       '(situation, type, deviation set, peer-state class, channel); non-trivial = at least one field deviates '
                       'from a valid message')
    ctx.cov['byte_mutants'] = cnt.get('mutants', 0)
    ctx.cov['byte_mutants_note'] = ('BOUNDED mutations of model-chosen encodings only: every truncation length (quick: 24 evenly '
                                    'spaced) and 10 replacement values at the first 48 bytes, at every byte that looks like a varint size '
                                    'prefix, and at the last 4 bytes; NOT arbitrary byte strings')
    ctx.cov['mutant_outcomes'] = {k[7:]: v for k, v in cnt.items() if k.startswith('mutant-')}
    ctx.cov['scenario_messages'] = cnt.get('scenario_messages', 0)
    ctx.cov['gossip_runs'] = cnt.get('gossip_runs', 0)
    ctx.cov['other_reactor_classes_in_model'] = len(others)
    ctx.cov['other_reactor_inputs'] = cnt.get('other_inputs', 0)
    ctx.cov['inputs_via_real_connection'] = cnt.get('inputs_via_real_connection', 0)
    ctx.cov['child_process_runs_for_absurd_sizes'] = cnt.get('child_runs', 0)
    ctx.cov['honest_traffic_commit_checks'] = cnt.get('finishes', 0)
    ctx.cov['max_alloc_bytes_for_one_message'] = cnt.get('max_alloc_bytes', 0)
    ctx.cov['exhaustive'] = not quick
    for t in traces[:2]:
        ctx.sample({'id': t['id'], 'situation': t['steps'][0]['args'][0],
                    'inputs': ['%s %s ps=%s -> %s' % (s['args'][0]['t'], label(s['args'][0]), s['args'][0]['ps'], s['args'][1]) for s in t['steps'][1:6]]})
    ctx.assumptions += [
        'signatures unforgeable: malicious-but-signed inputs are signed only by the round\'s proposer (the one Byzantine validator of four)',
        'receiver situations are 10 scripted reachable states of Tendermint.tla at heights 1-2, rounds 0-1; 4 validators of power 1',
        'field values are finite classes (in range / boundary / negative / >= size / huge / nil / inconsistent); "huge" sizes are 2^40 and run in a child process limited to 24 GiB of address space',
        'arbitrary byte strings are NOT covered: only bounded mutations of the model-chosen encodings (see byte_mutants_note)',
        'Receive is called on the test goroutine under a recover that does what MConnection._recover does; a sample of inputs additionally travels through a real MConnection (msgPacket framing, real _recover)',
        'no-wedge = the node commits its height when the three other validators then behave honestly and synchronously',
    ]
