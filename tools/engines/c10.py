"""C10 EVM frame semantics (partial by design): EVMFrames.tla generates programs (TLC: exhaustive over small
alphabets, -simulate over the full one) together with their expected outcome under three semantics -
REF (reference go-ethereum, Constantinople), ANN (in-tree VM, all forks active), APP (in-tree VM configured as
chain/app/evm configures it).  Every program is assembled into real bytecode and executed on the in-tree vm.EVM and,
in a second binary built from the same driver text, on reference go-ethereum v1.8.27; outcome class, return data,
logs and the complete post-state dump must agree between the two binaries and the spec, except where the spec says
a documented deviation (budget, 0xfe precompile) applies.  Second layer, clearly separate: DIFFERENTIAL REPLAY of
generated opcode snippets (every byte value 0x00..0xff, seeded random + boundary operands) on the same driver pair."""
import copy
import hashlib
import json
import os
import random
from concurrent.futures import ThreadPoolExecutor

from .. import engine, tlc, tlaval
from . import c11

SPEC = os.path.join(engine.VERIF, 'specs', 'evmframes')
REF = c11.REF
DOCUMENTED = {'budget', 'pfe'}
FINDINGS = {'deposit', 'nonce0', 'frontier-create'}


def build(ctx):
    c11.sync_ref('evmframes', 'refevm')
    engine.build_go(ctx, ['evmframes'])
    engine.build_go(ctx, ['refevm'], module_dir=REF)


def parse_emits(out):
    """EMIT lines printed by the spec's Emit (one finished transaction each) -> list of dicts."""
    res = []
    for line in out.splitlines():
        i = line.find('"EMIT ')
        if i < 0:
            continue
        body = line[i + 6:].rstrip()
        if body.endswith('"'):
            body = body[:-1]
        body = body.replace('\\"', '"').replace('\\\\', '\\')
        try:
            res.append(tlaval.parse_value(body))
        except Exception:
            continue
    return res


def gen_programs(ctx, cfgfile, simulate=None, depth=None, workers=3, timeout=600):
    r = tlc.run(SPEC, 'MC_EVMFrames.tla', cfgfile, workers=workers, timeout=timeout,
                simulate=simulate, depth=depth, seed=ctx.seed if simulate else None)
    progs = parse_emits(r.out)
    r.out = r.out[-4000:]
    return r, progs


def prog_key(p):
    return hashlib.sha1(json.dumps(p['code'], sort_keys=True).encode()).hexdigest()[:16]


def pinned(p):
    """Programs every run keeps regardless of sampling: a call with an output window whose callee REVERTs with payload and whose
    window is then stored; an account inspected right after a call touched / funded it."""
    a, b = p['code'].get('A') or [], p['code'].get('B') or []
    if len(a) == 2 and a[1]['op'] == 'SSTORE' and a[1]['v'] in ('w1', 'w2') and a[0]['k'] in ('32', '64') and b and b[-1]['op'] == 'REVERT':
        return True
    if len(a) == 2 and a[1]['op'] == 'EXTCODEHASH' and a[1]['k'] in ('0', '1') and a[0]['op'] in ('CALL', 'STATICCALL') and a[0]['t'] == a[1]['t']:
        return True
    if a and b and any(o['op'] == 'HOP' for o in a) and any(o['op'] == 'HOP' for o in b) and \
            any(o['op'] in ('CALLCODE', 'DELEGATECALL', 'CALL', 'STATICCALL') and o['t'] == 'B' for o in a):
        return True      # caller and callee both jump
    return False


def nontrivial(p):
    m = set(p.get('marks') or [])
    inner = [x for x in m if x.startswith('sub-')]
    return len(inner) >= 1 and (len(p['logs']) > 0 or any(x in m for x in ('sub-call-fail', 'sub-call-revert', 'sub-create-ok',
                                'sub-create-fail', 'sub-create-revert', 'static-blocked', 'depth-limit', 'collision')) or p['dev'])


# ---------------------------------------------------------------------------------------------
# opcode snippets

M256 = (1 << 256) - 1
OPS = {}   # byte -> (name, pops, pushes)


def _ops():
    def reg(b, n, i, o):
        OPS[b] = (n, i, o)
    for k, n in enumerate(['STOP', 'ADD', 'MUL', 'SUB', 'DIV', 'SDIV', 'MOD', 'SMOD', 'ADDMOD', 'MULMOD', 'EXP', 'SIGNEXTEND']):
        reg(k, n, [0, 2, 2, 2, 2, 2, 2, 2, 3, 3, 2, 2][k], 0 if k == 0 else 1)
    for k, n in enumerate(['LT', 'GT', 'SLT', 'SGT', 'EQ', 'ISZERO', 'AND', 'OR', 'XOR', 'NOT', 'BYTE', 'SHL', 'SHR', 'SAR']):
        reg(0x10 + k, n, 1 if n in ('ISZERO', 'NOT') else 2, 1)
    reg(0x20, 'SHA3', 2, 1)
    for k, (n, i, o) in enumerate([('ADDRESS', 0, 1), ('BALANCE', 1, 1), ('ORIGIN', 0, 1), ('CALLER', 0, 1), ('CALLVALUE', 0, 1),
                                   ('CALLDATALOAD', 1, 1), ('CALLDATASIZE', 0, 1), ('CALLDATACOPY', 3, 0), ('CODESIZE', 0, 1),
                                   ('CODECOPY', 3, 0), ('GASPRICE', 0, 1), ('EXTCODESIZE', 1, 1), ('EXTCODECOPY', 4, 0),
                                   ('RETURNDATASIZE', 0, 1), ('RETURNDATACOPY', 3, 0), ('EXTCODEHASH', 1, 1)]):
        reg(0x30 + k, n, i, o)
    for k, (n, i, o) in enumerate([('BLOCKHASH', 1, 1), ('COINBASE', 0, 1), ('TIMESTAMP', 0, 1), ('NUMBER', 0, 1), ('DIFFICULTY', 0, 1),
                                   ('GASLIMIT', 0, 1)]):
        reg(0x40 + k, n, i, o)
    for k, (n, i, o) in enumerate([('POP', 1, 0), ('MLOAD', 1, 1), ('MSTORE', 2, 0), ('MSTORE8', 2, 0), ('SLOAD', 1, 1), ('SSTORE', 2, 0),
                                   ('JUMP', 1, 0), ('JUMPI', 2, 0), ('PC', 0, 1), ('MSIZE', 0, 1), ('GAS', 0, 1), ('JUMPDEST', 0, 0)]):
        reg(0x50 + k, n, i, o)
    for k in range(32):
        reg(0x60 + k, 'PUSH%d' % (k + 1), 0, 1)
    for k in range(16):
        reg(0x80 + k, 'DUP%d' % (k + 1), k + 1, k + 2)
        reg(0x90 + k, 'SWAP%d' % (k + 1), k + 2, k + 2)
    for k in range(5):
        reg(0xa0 + k, 'LOG%d' % k, 2 + k, 0)
    for b, n, i, o in [(0xf0, 'CREATE', 3, 1), (0xf1, 'CALL', 7, 1), (0xf2, 'CALLCODE', 7, 1), (0xf3, 'RETURN', 2, 0),
                       (0xf4, 'DELEGATECALL', 6, 1), (0xf5, 'CREATE2', 4, 1), (0xfa, 'STATICCALL', 6, 1), (0xfd, 'REVERT', 2, 0),
                       (0xfe, 'INVALID', 0, 0), (0xff, 'SELFDESTRUCT', 1, 0)]:
        reg(b, n, i, o)


_ops()
BYNAME = {v[0]: k for k, v in OPS.items()}
SELF = 0xa000000000000000000000000000000000000a01
OTHER = 0xb000000000000000000000000000000000000b02
SENDER = 0x7e00000000000000000000000000000000000e07
NOBODY = 0x4e00000000000000000000000000000000000e04
BOUNDARY = [0, 1, 2, 3, 31, 32, 255, 256, (1 << 255), (1 << 255) - 1, (1 << 255) + 1, M256, M256 - 1, 1 << 128, (1 << 128) - 1,
            1 << 64, (1 << 64) - 1, 0x80, 0x7f, 0xff, 0x8000, 0x7fff]
SMALLIDX = [0, 1, 7, 8, 15, 30, 31, 32, 33, 255, 256, 257, 1 << 64, M256]


def push(n):
    n &= M256
    b = n.to_bytes(max(1, (n.bit_length() + 7) // 8), 'big')
    return bytes([0x5f + len(b)]) + b


def op(name):
    return bytes([BYNAME[name]])


def word(rng):
    c = rng.random()
    if c < 0.5:
        return rng.choice(BOUNDARY)
    if c < 0.7:
        return rng.getrandbits(256)
    if c < 0.8:
        return rng.getrandbits(rng.choice([8, 16, 64, 128, 200]))
    return (M256 - rng.getrandbits(rng.choice([4, 16, 64]))) & M256


def ret_top(q, size=None):
    """store the q topmost stack items to memory words 0..q-1 and return them"""
    c = b''
    for i in range(q):
        c += push(32 * i) + op('MSTORE')
    return c + push(size if size is not None else 32 * max(q, 1)) + push(0) + op('RETURN')


def with_operands(opb, operands, q, tail=None, pre=b''):
    c = pre
    for x in reversed(operands):      # operands[0] ends on top of the stack
        c += x if isinstance(x, bytes) else push(x)
    c += bytes([opb])
    return c + (tail if tail is not None else ret_top(q))


MEMFILL = push(0x1122334455667788990011223344556677889900aabbccddeeff00112233445566) + push(0) + op('MSTORE') + \
    push(M256 - 0x1234) + push(32) + op('MSTORE')
CALLDATA = bytes(range(1, 41))
RETURNER, REVERTER, FAILER = (0xd100000000000000000000000000000000000d01, 0xd200000000000000000000000000000000000d02,
                              0xd300000000000000000000000000000000000d03)
LIB = 0xd500000000000000000000000000000000000d05
SUICIDER = 0xd400000000000000000000000000000000000d04
EMPTYACCT = 0xe000000000000000000000000000000000000e0e
FRESH = 0xf4e5000000000000000000000000000000000f01
MARKER = int.from_bytes(bytes([0xab]) * 32, 'big')
INIT1 = bytes.fromhex('600160005360016000f3')          # creates a contract with the 1-byte code 01
INITREV = bytes.fromhex('60006000fd')                  # init code that reverts
INITBAD = bytes.fromhex('fe')                          # init code that fails


def gen_snippets(rng, per_op, mode='ANN'):
    """-> list of (label, code bytes, calldata bytes)"""
    out = []

    def add(label, code, data=CALLDATA, lib=None):
        out.append((label, code, data) if lib is None else (label, code, data, lib))

    for b in range(256):
        if b not in OPS:
            add('UNDEFINED_%02x' % b, bytes([b]))
            add('UNDEFINED_%02x' % b, push(1) + push(2) + bytes([b]) + ret_top(1))
            continue
        name, pops, pushes = OPS[b]
        if mode == 'APP' and name in ('CREATE', 'CREATE2'):
            continue    # creation under the application's configuration: decided with the model (known findings nonce0 / frontier-create)
        # stack underflow
        if pops > 0 and not name.startswith(('DUP', 'SWAP')):
            add(name + ':underflow', with_operands(b, [7] * (pops - 1), pushes))
        arith2 = ('ADD', 'MUL', 'SUB', 'DIV', 'SDIV', 'MOD', 'SMOD', 'EXP', 'LT', 'GT', 'SLT', 'SGT', 'EQ', 'AND', 'OR', 'XOR')
        if name in arith2 or name in ('ADDMOD', 'MULMOD', 'ISZERO', 'NOT'):
            for _ in range(per_op * 3):
                add(name, with_operands(b, [word(rng) for _ in range(pops)], 1))
        elif name in ('SIGNEXTEND', 'BYTE', 'SHL', 'SHR', 'SAR'):
            for _ in range(per_op * 3):
                add(name, with_operands(b, [rng.choice(SMALLIDX + [rng.randrange(0, 300)]), word(rng)], 1))
        elif name == 'SHA3':
            for off in (0, 1, 32):
                for size in (0, 1, 32, 33, 64):
                    add(name, with_operands(b, [off, size], 1, pre=MEMFILL))
            add(name + ':huge', with_operands(b, [0, 1 << 64], 1, pre=MEMFILL))
        elif name in ('BALANCE', 'EXTCODESIZE', 'EXTCODEHASH'):
            for a in (SELF, OTHER, SENDER, NOBODY, 1, 4, 0xfe, 0, rng.getrandbits(160), rng.getrandbits(256)):
                add(name, with_operands(b, [a], 1))
        elif name in ('ADDRESS', 'ORIGIN', 'CALLER', 'CALLVALUE', 'CALLDATASIZE', 'CODESIZE', 'GASPRICE', 'COINBASE', 'TIMESTAMP',
                      'NUMBER', 'DIFFICULTY', 'GASLIMIT', 'PC', 'RETURNDATASIZE'):
            add(name, bytes([b]) + ret_top(1))
            add(name, op('JUMPDEST') * 3 + bytes([b]) + ret_top(1), b'')
        elif name == 'MSIZE':
            for off in (0, 1, 31, 32, 100):
                add(name, push(1) + push(off) + op('MSTORE') + bytes([b]) + ret_top(1))
            add(name, bytes([b]) + ret_top(1))
        elif name == 'GAS':
            add(name + ':value-not-compared', bytes([b]) + op('POP') + push(7) + ret_top(1))
        elif name == 'CALLDATALOAD':
            for i in (0, 1, 8, 31, 32, 39, 40, 41, 1 << 63, 1 << 64, M256):
                add(name, with_operands(b, [i], 1))
        elif name in ('CALLDATACOPY', 'CODECOPY'):
            for mem in (0, 31):
                for off in (0, 5, 39, 40, 1000, (1 << 64) + 3, M256):
                    for ln in (0, 1, 32, 41):
                        add(name, with_operands(b, [mem, off, ln], 0, tail=push(128) + push(0) + op('RETURN'), pre=MEMFILL))
            add(name + ':huge-len', with_operands(b, [0, 0, 1 << 64], 0, tail=push(32) + push(0) + op('RETURN')))
            add(name + ':huge-mem', with_operands(b, [1 << 64, 0, 1], 0, tail=push(32) + push(0) + op('RETURN')))
        elif name == 'EXTCODECOPY':
            for a in (SELF, OTHER, NOBODY, 4):
                for off in (0, 3, 17, 18, 1000, 1 << 64):
                    add(name, with_operands(b, [a, 0, off, 32], 0, tail=push(64) + push(0) + op('RETURN'), pre=MEMFILL))
        elif name == 'RETURNDATACOPY':
            call = push(0) + push(0) + push(32) + push(0) + push(0) + push(OTHER) + op('GAS') + op('CALL') + op('POP')
            for mem, off, ln in ((0, 0, 32), (0, 0, 0), (0, 1, 31), (0, 1, 32), (0, 32, 0), (0, 33, 0), (0, 0, 33), (5, 31, 1),
                                 (0, 1 << 64, 0), (0, M256, 1), (0, 0, 1 << 64), (0, M256, M256)):
                add(name, with_operands(b, [mem, off, ln], 0, tail=push(64) + push(0) + op('RETURN'), pre=MEMFILL + call))
            add(name + ':nodata', with_operands(b, [0, 0, 1], 0, tail=push(64) + push(0) + op('RETURN')))
            add(name + ':nodata0', with_operands(b, [0, 0, 0], 0, tail=push(64) + push(0) + op('RETURN')))
            add('RETURNDATASIZE:after-call', call + op('RETURNDATASIZE') + ret_top(1))
        elif name == 'BLOCKHASH':
            for n in (0, 1, 8, 9, 10, 11, 255, 266, 1 << 64, M256):
                add(name, with_operands(b, [n], 1))
        elif name == 'POP':
            add(name, push(5) + push(6) + bytes([b]) + ret_top(1))
        elif name == 'MLOAD':
            for off in (0, 1, 31, 32, 33, 64, 1000):
                add(name, with_operands(b, [off], 1, pre=MEMFILL))
            add(name + ':huge', with_operands(b, [1 << 64], 1))
        elif name in ('MSTORE', 'MSTORE8'):
            for off in (0, 1, 31, 32, 95):
                add(name, with_operands(b, [off, word(rng)], 0, tail=push(160) + push(0) + op('RETURN'), pre=MEMFILL))
            add(name + ':huge', with_operands(b, [M256, 1], 0, tail=push(32) + push(0) + op('RETURN')))
        elif name == 'SLOAD':
            for k in (0, 1, 2, M256):
                add(name, with_operands(b, [k], 1))
        elif name == 'SSTORE':
            for k, v in ((0, 1), (1, 0), (1, 0x1234), (1, 5), (2, M256), (M256, 1), (0, 0)):
                add(name, with_operands(b, [k, v], 0, tail=push(k) + op('SLOAD') + ret_top(1)))
            add(name + ':twice', push(0) + push(1) + op('SSTORE') + push(9) + push(1) + op('SSTORE') + push(0) + push(3) + op('SSTORE') + op('STOP'))
        elif name in ('JUMP', 'JUMPI'):
            # layout: PUSH dest [PUSH cond] JUMP(I) ; fallthrough returns 1 ; JUMPDEST returns 2 ; PUSH1 0x5b (data byte)
            for cond in ([None] if name == 'JUMP' else [0, 1, M256, 1 << 255]):
                for kind in ('valid', 'not-jumpdest', 'pushdata', 'outside', 'huge', 'bits63'):
                    fall = push(1) + ret_top(1)
                    land = op('JUMPDEST') + push(2) + ret_top(1)
                    tailc = fall + land + bytes([0x60, 0x5b]) + op('STOP')

                    def build(dest):
                        c = (push(cond) if cond is not None else b'') + bytes([0x61, dest >> 8, dest & 255]) if dest < 65536 else \
                            (push(cond) if cond is not None else b'') + push(dest)
                        return c + bytes([b]) + tailc
                    base = len((push(cond) if cond is not None else b'')) + 3 + 1
                    dest = {'valid': base + len(fall), 'not-jumpdest': base + len(fall) + 1,
                            'pushdata': base + len(fall) + len(land) + 1, 'outside': 5000, 'huge': 1 << 64, 'bits63': 1 << 63}[kind]
                    add('%s:%s' % (name, kind), build(dest))
        elif name == 'JUMPDEST':
            add(name, bytes([b]) * 5 + push(3) + ret_top(1))
        elif name.startswith('PUSH'):
            n = b - 0x5f
            data = bytes(rng.getrandbits(8) for _ in range(n))
            add(name, bytes([b]) + data + ret_top(1))
            add(name + ':truncated', bytes([b]) + data[:n // 2])
            add(name + ':truncated-then-nothing', push(1) + bytes([b]))
        elif name.startswith('DUP') or name.startswith('SWAP'):
            n = int(name[3:] if name.startswith('DUP') else name[4:])
            vals = [0x100 + i for i in range(17)]
            pre = b''.join(push(v) for v in vals)
            add(name, pre + bytes([b]) + ret_top(3))
            dumpn = pre + bytes([b]) + b''.join(push(32 * i) + op('MSTORE') for i in range(17)) + push(17 * 32) + push(0) + op('RETURN')
            add(name + ':all', dumpn)
            need = n if name.startswith('DUP') else n + 1
            add(name + ':underflow', b''.join(push(v) for v in vals[:need - 1]) + bytes([b]) + ret_top(1))
        elif name.startswith('LOG'):
            n = b - 0xa0
            for off, size in ((0, 0), (0, 32), (1, 40), (60, 10)):
                add(name, with_operands(b, [off, size] + [word(rng) for _ in range(n)], 0, tail=op('STOP'), pre=MEMFILL))
            add(name + ':huge', with_operands(b, [0, 1 << 64] + [1] * n, 0, tail=op('STOP')))
        elif name in ('CALL', 'CALLCODE', 'DELEGATECALL', 'STATICCALL'):
            hasv = name in ('CALL', 'CALLCODE')
            # gas argument = GAS (everything): a numeric gas limit would be enforced by the reference and ignored by the
            # in-tree VM (documented deviation: budget instead of caller-supplied gas)
            for to in (OTHER, NOBODY, 4, 2, 6, 8, SENDER, 0xfe):
                for val in ((0, 1, 2000) if hasv else (0,)):
                    for insz, outsz in ((32, 32), (0, 0), (40, 10)):
                        args = [op('GAS'), to] + ([val] if hasv else []) + [0, insz, 64, outsz]
                        label = name + (':to-fe-documented-deviation' if to == 0xfe else '')
                        add(label, with_operands(b, args, 1, tail=push(128) + op('MSTORE') + op('RETURNDATASIZE') + push(160) + op('MSTORE') +
                                                 push(1) + op('SLOAD') + push(192) + op('MSTORE') + push(224) + push(0) + op('RETURN'), pre=MEMFILL))
            # output window: memory[70:70+outsz] pre-filled with a marker; the callee returns 32 bytes / RETURNs 40 / REVERTs with
            # 40 / halts exceptionally / has no code / is a precompile.  "untouched", "overwritten", "partly overwritten" differ.
            marks = b''.join(push(MARKER) + push(64 + 32 * i) + op('MSTORE') for i in range(5))
            wtail = push(256) + op('MSTORE') + op('RETURNDATASIZE') + push(288) + op('MSTORE') + push(320) + push(0) + op('RETURN')
            for tname, to in (('returns32', OTHER), ('returns40', RETURNER), ('reverts40', REVERTER), ('fails', FAILER), ('nocode', NOBODY),
                              ('identity', 4), ('sha256', 2)):
                for outsz in (0, 10, 32, 40, 64):
                    args = [op('GAS'), to] + ([0] if hasv else []) + [0, 32, 70, outsz]
                    add('%s:window:%s' % (name, tname), with_operands(b, args, 1, tail=wtail, pre=MEMFILL + marks))
        elif name in ('CREATE', 'CREATE2'):
            for init in (INIT1, INITREV, INITBAD, b''):
                for val in (0, 1, 2000):
                    pre = b''.join(push(x) + push(i) + op('MSTORE8') for i, x in enumerate(init))
                    args = [val, 0, len(init)] + ([0x5a17] if name == 'CREATE2' else [])
                    tail = op('DUP1') + push(0) + op('MSTORE') + op('EXTCODESIZE') + push(32) + op('MSTORE') + op('RETURNDATASIZE') + push(64) + \
                        op('MSTORE') + push(96) + push(0) + op('RETURN')
                    add(name, with_operands(b, args, 1, tail=tail, pre=pre))
            if name == 'CREATE2':
                pre = b''.join(push(x) + push(i) + op('MSTORE8') for i, x in enumerate(INIT1))
                one = b''.join(push(x) for x in reversed([0, 0, len(INIT1), 7])) + bytes([b])
                add(name + ':twice-same-salt', pre + one + one + ret_top(2))
        elif name in ('RETURN', 'REVERT'):
            for off, size in ((0, 0), (0, 32), (1, 33), (64, 0), (0, 1 << 64), (M256, 0), (M256, 1)):
                add(name, with_operands(b, [off, size], 0, tail=b'', pre=MEMFILL + push(1) + push(0) + op('SSTORE')))
        elif name in ('STOP', 'INVALID'):
            add(name, push(1) + push(0) + op('SSTORE') + bytes([b]) + push(2) + push(0) + op('SSTORE'))
        elif name == 'SELFDESTRUCT':
            for a in (SENDER, SELF, NOBODY, 4, OTHER, M256):
                add(name, push(1) + push(0) + op('SSTORE') + push(a) + bytes([b]))
        else:
            raise AssertionError('no generator for ' + name)
    # account-inspecting opcodes x account class.  `pre` brings the account into the class inside the same transaction.
    def zcall(to, val=0, opname='CALL'):
        a = [0, 0, 0, 0] + ([val] if opname in ('CALL', 'CALLCODE') else []) + [to]
        return b''.join(push(x) for x in a) + op('GAS') + op(opname) + op('POP')
    classes = [('nonexistent', NOBODY, b''), ('empty-in-prestate', EMPTYACCT, b''), ('funded-eoa', SENDER, b''), ('contract', OTHER, b''),
               ('self', SELF, b''), ('precompile-untouched', 3, b''), ('precompile-touched-by-call', 2, zcall(2)),
               ('precompile-touched-by-staticcall', 4, zcall(4, opname='STATICCALL')), ('precompile-funded', 2, zcall(2, 1)),
               ('fresh-touched-by-zero-value-call', FRESH, zcall(FRESH)), ('fresh-funded-in-tx', FRESH, zcall(FRESH, 1)),
               ('fresh-touched-by-staticcall', FRESH, zcall(FRESH, opname='STATICCALL')),
               ('empty-in-prestate-touched', EMPTYACCT, zcall(EMPTYACCT)), ('governance-precompile-documented-deviation', 0xfe, zcall(0xfe)),
               ('selfdestructed-in-tx', SUICIDER, zcall(SUICIDER)), ('selfdestruct-beneficiary-fresh', FRESH, push(FRESH) + op('SELFDESTRUCT'))]
    for cname, a, pre in classes:
        if cname.startswith('selfdestruct-beneficiary'):
            continue    # the inspecting frame would be gone
        for oname in ('EXTCODEHASH', 'EXTCODESIZE', 'BALANCE'):
            add('%s:acct:%s' % (oname, cname), with_operands(BYNAME[oname], [a], 1, pre=pre))
        add('EXTCODECOPY:acct:%s' % cname, with_operands(BYNAME['EXTCODECOPY'], [a, 0, 0, 32], 0, tail=push(64) + push(0) + op('RETURN'), pre=MEMFILL + pre))
    # jumps in caller AND callee of every call kind, layouts disagreeing at the target offset (the jump-destination analysis
    # is cached per code hash: the callee's code must be analysed as the callee's code)
    def pad(c, n, fill=0xfe):
        assert len(c) <= n, (len(c), n)
        return c + bytes([fill]) * (n - len(c))
    landed = push(0x77) + push(0) + op('MSTORE') + push(32) + push(0) + op('RETURN')      # callee: "I landed": returns 0x77
    for cname in ('CALL', 'CALLCODE', 'DELEGATECALL', 'STATICCALL'):
        hasv = cname in ('CALL', 'CALLCODE')
        docall = b''.join(push(x) for x in [32, 64, 0, 0] + ([0] if hasv else []) + [LIB]) + op('GAS') + op(cname)
        fin = push(0) + op('MSTORE') + op('RETURNDATASIZE') + push(32) + op('MSTORE') + push(96) + push(0) + op('RETURN')   # status, rdsize, window
        for order in ('caller-jumps-first', 'callee-jumps-first'):
            def caller(head):
                # head fixes what the caller has at the low offsets; then its own jump (before or after the call)
                hop_at = len(head)
                hop = bytes([0x61, (hop_at + 4) >> 8, (hop_at + 4) & 255]) + op('JUMP') + op('JUMPDEST')
                return head + (hop + docall if order == 'caller-jumps-first' else docall + bytes([0x61, (hop_at + len(docall) + 4) >> 8, (hop_at + len(docall) + 4) & 255]) + op('JUMP') + op('JUMPDEST')) + fin
            # V1: the callee's JUMPDEST (offset 10) lies where the caller has a PUSH32 immediate
            lib1 = pad(push(10) + op('JUMP'), 10) + op('JUMPDEST') + landed
            add('%s:jump:callee-target-is-caller-immediate:%s' % (cname, order), caller(bytes([0x7f]) + bytes([0x5b]) * 32 + op('POP')), lib=lib1)
            # V2: the callee jumps into its own PUSH32 immediate (0x5b bytes) where the caller has real JUMPDESTs: must fail
            lib2 = push(8) + op('JUMP') + bytes([0x7f]) + bytes([0x5b]) * 32 + landed
            add('%s:jump:callee-immediate-is-caller-jumpdest:%s' % (cname, order), caller(op('JUMPDEST') * 40), lib=lib2)
            # V3: the callee's target lies beyond the end of the caller's code
            lib3 = pad(bytes([0x61, 0x02, 0x58]) + op('JUMP'), 600) + op('JUMPDEST') + landed
            add('%s:jump:callee-target-beyond-caller-code:%s' % (cname, order), caller(b''), lib=lib3)
            # V4: the caller's own target lies where the callee has an immediate (the reverse mix-up)
            lib4 = bytes([0x7f]) + bytes([0x5b]) * 32 + op('POP') + bytes([0x61, 0, 38]) + op('JUMP') + op('JUMPDEST') + landed
            add('%s:jump:caller-target-is-callee-immediate:%s' % (cname, order), caller(op('JUMPDEST') * 5), lib=lib4)
    # return data of precompiles must not alias the caller's memory: call, overwrite the input region, read the return data
    for cname in ('CALL', 'CALLCODE', 'DELEGATECALL', 'STATICCALL'):
        hasv = cname in ('CALL', 'CALLCODE')
        for pname, paddr in (('identity', 4), ('sha256', 2), ('ripemd160', 3), ('ecrecover', 1)):
            for wname, (ooff, osz) in (('no-window', (0, 0)), ('window-shifted-over-input', (16, 32)), ('window-on-input', (0, 64)),
                                       ('window-behind-input', (64, 32))):
                c = MEMFILL + push(0) + push(480) + op('MSTORE')                      # memory fully allocated before the call
                c += b''.join(push(x) for x in [osz, ooff, 64, 0] + ([0] if hasv else []) + [paddr]) + op('GAS') + op(cname) + push(256) + op('MSTORE')
                c += push(MARKER) + push(0) + op('MSTORE') + push(MARKER ^ M256) + push(40) + op('MSTORE')     # overwrite the input region
                c += op('RETURNDATASIZE') + push(288) + op('MSTORE')
                c += op('RETURNDATASIZE') + push(0) + push(320) + op('RETURNDATACOPY')    # whole return data -> memory[320:]
                c += push(448) + push(0) + op('RETURN')
                add('%s:retdata-after-input-overwrite:%s:%s' % (cname, pname, wname), c)
    # stack limits
    add('STACK:1024', push(1) * 1024 + ret_top(1))
    add('STACK:1025', push(1) * 1025 + ret_top(1))
    add('STACK:dup-at-1024', push(1) * 1024 + op('DUP1') + ret_top(1))
    return out


def value_calls(n, to=NOBODY):
    c = b''
    for _ in range(n):
        c += push(0) + push(0) + push(0) + push(0) + push(1) + push(to) + op('GAS') + op('CALL') + op('POP')
    return c + op('STOP')


def snippet_traces(rng, per_op, mode, chunk=400, via=None, every=1):
    sn = gen_snippets(rng, per_op, mode)[::every]
    if via == 'message':
        # transactions through core.ApplyMessage: value transfers return their unused gas stipend to the caller
        sn = [('VALUECALLS_%d' % n, value_calls(n, to), b'') for n in (1, 5, 9, 10, 11, 12, 40, 100) for to in (NOBODY, OTHER, SENDER)] + sn
    traces = []
    for i in range(0, len(sn), chunk):
        part = sn[i:i + chunk]
        traces.append({'id': 'snippets-%s%s-%d' % (mode, '-' + via if via else '', i // chunk),
                       'cfg': dict({'kind': 'snippets', 'mode': mode}, **({'via': via} if via else {})), 'init': None,
                       'steps': [{'a': 'Snippet', 'args': [x[1].hex(), x[2].hex(), x[0]] + ([x[3].hex()] if len(x) > 3 else []), 'post': {}}
                                 for x in part]})
    return traces, len(sn)


# ---------------------------------------------------------------------------------------------

CONFIGS = {
    # name: (cfg file, mode, entry, maxdepth)
    'core_ref':  ('MC_EVMFrames_core_ref.cfg', 'REF', 'direct', 3),
    'core_ann':  ('MC_EVMFrames_core_ann.cfg', 'ANN', 'direct', 3),
    'core_app':  ('MC_EVMFrames_core_app.cfg', 'APP', 'direct', 3),
    'crea_ref':  ('MC_EVMFrames_crea_ref.cfg', 'REF', 'direct', 3),
    'crea_ann':  ('MC_EVMFrames_crea_ann.cfg', 'ANN', 'direct', 3),
    'crea_app':  ('MC_EVMFrames_crea_app.cfg', 'APP', 'direct', 3),
    'win_ref':   ('MC_EVMFrames_win_ref.cfg', 'REF', 'direct', 3),
    'win_ann':   ('MC_EVMFrames_win_ann.cfg', 'ANN', 'direct', 3),
    'win_app':   ('MC_EVMFrames_win_app.cfg', 'APP', 'direct', 3),
    'insp_ref':  ('MC_EVMFrames_insp_ref.cfg', 'REF', 'direct', 3),
    'insp_ann':  ('MC_EVMFrames_insp_ann.cfg', 'ANN', 'direct', 3),
    'insp_app':  ('MC_EVMFrames_insp_app.cfg', 'APP', 'direct', 3),
    'jump_ref':  ('MC_EVMFrames_jump_ref.cfg', 'REF', 'direct', 3),
    'jump_ann':  ('MC_EVMFrames_jump_ann.cfg', 'ANN', 'direct', 3),
    'jump_app':  ('MC_EVMFrames_jump_app.cfg', 'APP', 'direct', 3),
    'deep_ann':  ('MC_EVMFrames_deep_ann.cfg', 'ANN', 'tramp', 2),
    'deep_ref':  ('MC_EVMFrames_deep_ref.cfg', 'REF', 'tramp', 2),
    'sim_ref_d': ('MC_EVMFrames_sim_ref_d.cfg', 'REF', 'direct', 4),
    'sim_ann_d': ('MC_EVMFrames_sim_ann_d.cfg', 'ANN', 'direct', 4),
    'sim_app_d': ('MC_EVMFrames_sim_app_d.cfg', 'APP', 'direct', 4),
    'sim_ref_t': ('MC_EVMFrames_sim_ref_t.cfg', 'REF', 'tramp', 3),
    'sim_ann_t': ('MC_EVMFrames_sim_ann_t.cfg', 'ANN', 'tramp', 3),
    'sim_app_t': ('MC_EVMFrames_sim_app_t.cfg', 'APP', 'tramp', 3),
}


def to_trace(p, name, k, sweep):
    cfgfile, mode, entry, maxdepth = CONFIGS[name]
    return {'id': '%s-%s-%s' % (name, prog_key(p), k), 'init': None,
            'cfg': {'kind': 'program', 'mode': mode, 'entry': entry, 'maxdepth': maxdepth, 'sweep': 1 if sweep else 0, 'gen': name},
            'steps': [{'a': 'Tx', 'args': [], 'post': p}]}


def run_both(ctx, intree_traces, ref_traces, timeout=2400):
    if not ref_traces:
        return engine.run_driver(ctx, 'evmframes', intree_traces, timeout=timeout), {'traces': 0, 'steps': 0, 'checks': 0, 'failures': [], 'extra': {}}
    with ThreadPoolExecutor(2) as ex:
        fa = ex.submit(engine.run_driver, ctx, 'evmframes', intree_traces, timeout=timeout)
        fb = ex.submit(engine.run_driver, ctx, 'refevm', ref_traces, timeout=timeout, module_dir=REF)
        return fa.result(), fb.result()


def add_failure(ctx, key, prop, detail, trace, want=None, got=None, kind='mismatch'):
    ctx.failures.append({'key': key, 'property': prop, 'kind': kind, 'detail': detail[:4000], 'action': 'Tx', 'step': 0,
                         'want': want, 'got': got, 'engine': 'evmframes', 'replay': {'engine': 'evmframes', 'args': [], 'trace': trace}})


def first_diff(a, b):
    if not isinstance(a, dict) or not isinstance(b, dict):
        return 'observation'
    for k in ('class', 'ret', 'logs', 'state'):
        if a.get(k) != b.get(k):
            if k == 'state':
                sa, sb = a.get('state') or {}, b.get('state') or {}
                for addr in sorted(set(sa) | set(sb)):
                    if sa.get(addr) != sb.get(addr):
                        if addr not in sa or addr not in sb:
                            return 'state:account-existence'
                        for f in ('nonce', 'balance', 'code', 'storage'):
                            if sa[addr].get(f) != sb[addr].get(f):
                                return 'state:' + f
            return k
    return 'equal'


def judge_programs(ctx, traces, a, b, lookup=None):
    """The three-way comparison model / in-tree / reference for every program (see module docstring)."""
    obs_a, obs_b = a['extra'].get('obs') or {}, b['extra'].get('obs') or {}
    fa = {f['trace_id']: f for f in (a.get('failures') or []) if f.get('trace_id')}
    fb = {f['trace_id']: f for f in (b.get('failures') or []) if f.get('trace_id')}
    st = {'programs': 0, 'intree_eq_model': 0, 'ref_eq_model': 0, 'intree_eq_ref': 0, 'documented_deviation_applies': 0,
          'finding_explained': 0, 'ref_unusable': 0}
    for f in (a.get('failures') or []) + (b.get('failures') or []):
        if f.get('kind') in ('panic', 'error', 'property') and not str(f.get('key', '')).startswith('model:'):
            t = next((t for t in (lookup or traces) if t['id'] == f.get('trace_id')), None)
            if t is not None and t['cfg']['kind'] == 'snippets':
                si = f.get('step') or 0
                t = {'id': '%s-%d' % (t['id'], si), 'cfg': t['cfg'], 'init': None, 'steps': t['steps'][si:si + 1]}
            from_ref = f in (b.get('failures') or [])
            add_failure(ctx, ('reference:' if from_ref else '') + str(f.get('key')), bool(f.get('property')) and not from_ref, f.get('detail', ''),
                        t, f.get('want'), f.get('got'), kind=f.get('kind'))
    for t in traces:
        if t['cfg']['kind'] != 'program':
            continue
        st['programs'] += 1
        tid, mode = t['id'], t['cfg']['mode']
        exp = t['steps'][0]['post']
        tags = set(exp['dev'])
        oa, ob = obs_a.get(tid), obs_b.get(tid)
        ref_ok = isinstance(ob, dict) and 'class' in ob
        if isinstance(ob, dict) and 'unusable' in ob:
            st['ref_unusable'] += 1
        if mode == 'REF':
            if tid in fb:
                add_failure(ctx, 'reference:' + fb[tid]['key'], False, 'reference go-ethereum differs from the REF model: ' + fb[tid]['detail'], t,
                            fb[tid].get('want'), fb[tid].get('got'))
            elif ref_ok:
                st['ref_eq_model'] += 1
            continue
        # ANN / APP: executed on both binaries
        if oa is None:
            continue
        same = ref_ok and {k: oa.get(k) for k in ('class', 'ret', 'logs', 'state')} == {k: ob.get(k) for k in ('class', 'ret', 'logs', 'state')}
        if same:
            st['intree_eq_ref'] += 1
        if tid in fa:       # in-tree differs from the as-implemented model
            if ref_ok and not same:
                add_failure(ctx, 'evm-differs-from-reference:%s:%s' % (mode, first_diff(oa, ob)), True,
                            'the in-tree VM (%s configuration) and reference go-ethereum disagree on a program, and the difference is not one '
                            'the model of the in-tree VM explains (tags fired: %s); first difference: %s. %s' % (
                                mode, sorted(tags), first_diff(oa, ob), fa[tid]['detail']), t, ob, oa)
            else:
                add_failure(ctx, fa[tid]['key'], False, 'in-tree VM differs from the %s model but not from the reference: %s' % (mode, fa[tid]['detail']),
                            t, fa[tid].get('want'), fa[tid].get('got'))
            continue
        st['intree_eq_model'] += 1
        if not ref_ok or same:
            if tags & DOCUMENTED and not ref_ok:
                st['documented_deviation_applies'] += 1
            continue
        # in-tree follows its model, the reference does something else
        if not tags:
            add_failure(ctx, 'reference:model-common', False, 'no deviation fired, the in-tree VM matches the model, the reference does not (%s)' % first_diff(oa, ob),
                        t, ob, oa)
        elif tags & DOCUMENTED:
            st['documented_deviation_applies'] += 1      # budget / 0xfe: not a violation, and not separable from other tags
        else:
            st['finding_explained'] += 1
            for tag in sorted(tags & FINDINGS):
                add_failure(ctx, 'deviation:' + tag, True,
                            'in-tree VM (%s configuration) and reference go-ethereum (Constantinople) disagree on a TLC-generated program; the model of the '
                            'in-tree VM reproduces the in-tree outcome through its "%s" branch (all tags: %s); first difference: %s' % (
                                mode, tag, sorted(tags), first_diff(oa, ob)), t, ob, oa, kind='property')
    return st


def judge_snippets(ctx, traces, a, b):
    obs_a, obs_b = a['extra'].get('obs') or {}, b['extra'].get('obs') or {}
    n = diff = excluded = 0
    perop = {}
    for t in traces:
        if t['cfg']['kind'] != 'snippets':
            continue
        la, lb = obs_a.get(t['id']) or [], obs_b.get(t['id']) or []
        for i, s in enumerate(t['steps']):
            label = s['args'][2]
            n += 1
            perop[label.split(':')[0]] = perop.get(label.split(':')[0], 0) + 1
            x, y = (la[i] if i < len(la) else None), (lb[i] if i < len(lb) else None)
            if isinstance(x, dict):
                x = {k: x.get(k) for k in ('class', 'ret', 'logs', 'state')}
            if isinstance(y, dict):
                y = {k: y.get(k) for k in ('class', 'ret', 'logs', 'state')}
            if x == y:
                continue
            if 'documented-deviation' in label:
                excluded += 1
                continue
            diff += 1
            one = {'id': t['id'] + '-%d' % i, 'cfg': t['cfg'], 'init': None, 'steps': [s]}
            add_failure(ctx, 'opcode:%s:%s:%s' % (t['cfg']['mode'], label.split(':')[0], first_diff(x, y)), True,
                        'differential replay: snippet %s (code %s) gives different results on the in-tree VM and on reference go-ethereum: %s' % (
                            label, s['args'][0][:200], first_diff(x, y)), one, y, x, kind='property')
    return n, diff, excluded, perop


def run(ctx, replay=None):
    build(ctx)
    if replay is not None:
        tr = replay['trace']
        a, b = run_both(ctx, [tr], [] if tr['cfg'].get('via') == 'message' else [tr])
        if tr['cfg']['kind'] == 'program' or tr['cfg'].get('via') == 'message':
            judge_programs(ctx, [tr], a, b)
        else:
            judge_snippets(ctx, [tr], a, b)
        ctx.cov['traces_validated_against_impl'] = 1
        ctx.cov['states'] = ctx.cov['transitions'] = 1
        ctx.sample({'replayed': tr['id']})
        return

    quick = ctx.tier == 'quick'
    W = 2 if quick else 4
    TO = 600 if quick else 3000
    exh = ['core_ann', 'core_app', 'crea_ref', 'crea_app', 'deep_ann', 'win_ann', 'insp_ann', 'jump_ann'] if quick else \
        ['core_ref', 'core_ann', 'core_app', 'crea_ref', 'crea_ann', 'crea_app', 'deep_ann', 'deep_ref', 'win_ref', 'win_ann', 'win_app', 'insp_ref', 'insp_ann', 'insp_app', 'jump_ref', 'jump_ann', 'jump_app']
    sims = [(n, (150, 250) if quick else (350, 300)) for n in (('sim_ref_d', 'sim_ann_d', 'sim_app_t', 'sim_ann_t') if quick else
                                                              ('sim_ref_d', 'sim_ann_d', 'sim_app_d', 'sim_ref_t', 'sim_ann_t', 'sim_app_t'))]
    results = {}
    with ThreadPoolExecutor(5 if quick else 4) as ex:
        futs = {n: ex.submit(gen_programs, ctx, CONFIGS[n][0], None, None, W, TO) for n in exh}
        for n, (num, dp) in sims:
            futs[n] = ex.submit(gen_programs, ctx, CONFIGS[n][0], 'num=%d' % num, dp, W, TO)
        for n, f in futs.items():
            results[n] = f.result()
    traces = []
    seen = set()
    for n in exh + [s[0] for s in sims]:
        r, progs = results[n]
        ctx.add_tlc('EVMFrames/' + n, r, exhaustive=n in exh)
        if r.violation:
            ctx.inconclusive.append('spec invariant %s violated in EVMFrames/%s (specification defect, not a verdict about the code)' % (r.violation, n))
        cnt = 0
        for p in progs:
            k = (n, prog_key(p))
            if k in seen:
                continue
            seen.add(k)
            cnt += 1
            traces.append(to_trace(p, n, cnt, sweep=(cnt % 7 == 0)))
        ctx.log('EVMFrames/%s: %s -> %d distinct programs' % (n, {k: v for k, v in r.summary().items() if k in ('generated', 'distinct', 'wall_s', 'ok')}, cnt))
    if True:
        # a seeded sample of the larger exhaustive sets (programs entered through the 1022-frame trampoline cost ~30 ms
        # each on each binary); the thorough tier runs the direct-entry sets completely; every simulated program is run
        # (pinned programs - window + reverting callee, inspect-after-touch - are always kept, see pinned())
        caps = {'core_ann': 600, 'core_app': 600, 'crea_ref': 500, 'crea_app': 700, 'deep_ann': 400, 'win_ref': 600, 'win_ann': 2000, 'insp_ann': 1200, 'jump_ann': 1200} if quick else \
            {'deep_ann': 1200, 'deep_ref': 1200}
        by = {}
        for t in traces:
            by.setdefault(t['cfg']['gen'], []).append(t)
        traces = []
        for g in sorted(by):
            ctx.rng.shuffle(by[g])
            by[g].sort(key=lambda t: not pinned(t['steps'][0]['post']))    # stable: pinned programs first, never sampled away
            npin = sum(1 for t in by[g] if pinned(t['steps'][0]['post']))
            traces += by[g][:max(npin, caps.get(g, len(by[g])))]
    rng = random.Random(ctx.seed)
    sn_traces, nsn = snippet_traces(rng, 2 if quick else 12, 'ANN')
    sn_app, nsn2 = snippet_traces(random.Random(ctx.seed + 1000), 1, 'APP')
    sn_msg, nsn3 = snippet_traces(random.Random(ctx.seed + 2000), 1, 'APP', via='message', every=3 if quick else 1)
    all_traces = traces + sn_traces + sn_app

    # binding self-test: corrupted expectations must be rejected by the in-tree driver
    probes = []
    for t in traces:
        p = t['steps'][0]['post']
        if t['cfg']['mode'] == 'ANN' and p['result']['class'] == 'success' and not p['dev'] and any(v['stor']['0'] != '0' for v in p['final'].values()):
            q = copy.deepcopy(t)
            for v in q['steps'][0]['post']['final'].values():
                if v['stor']['0'] != '0':
                    v['stor']['0'] = '0'
                    break
            probes.append(q)
            q2 = copy.deepcopy(t)
            q2['steps'][0]['post']['result']['class'] = 'revert'
            probes.append(q2)
            break
    rejected = 0
    if probes:
        rp = engine.run_driver(ctx, 'evmframes', probes)
        rejected = len({f['trace'] for f in rp.get('failures') or []})
    ctx.cov['binding_selftest'] = 'rejected %d/%d corrupted expectations' % (rejected, len(probes))
    if not probes or rejected != len(probes):
        ctx.inconclusive.append('binding self-test: a corrupted expectation was accepted (%d/%d rejected)' % (rejected, len(probes)))

    intree = [t for t in all_traces if t['cfg'].get('mode') != 'REF'] + sn_msg
    a, b = run_both(ctx, intree, all_traces)
    st = judge_programs(ctx, traces, a, b, lookup=all_traces + sn_msg)
    nsnip, sdiff, sexcl, perop = judge_snippets(ctx, sn_traces + sn_app, a, b)
    ctx.log('programs %s; snippets %d compared, %d differ, %d under the 0xfe deviation' % (st, nsnip, sdiff, sexcl))
    nt = sum(1 for t in traces if nontrivial(t['steps'][0]['post']))
    ctx.cov['traces_validated_against_impl'] = len([t for t in traces if t['cfg']['mode'] != 'REF'])
    ctx.cov['programs_validated_against_reference'] = len(traces) - (b.get('counters') or {}).get('skipped_budget_on_reference', 0)
    ctx.cov['evaluations'] = a['steps'] + b['steps']
    ctx.cov['distinct_nontrivial'] = nt
    ctx.cov['rule'] = ('programs = distinct program texts exported by the spec (TLC exhaustive over the small alphabets, tlc -simulate over the '
                       'full alphabet); non-trivial = at least one nested frame AND (a log, a failing/reverting inner frame, a creation, a blocked '
                       'static write, the depth limit, an address collision or a deviation tag)')
    ctx.cov['program_comparison'] = st
    ctx.cov['differential_replay'] = {'what': 'generated opcode snippets (model-independent: seeded random + boundary operands, every byte value '
                                              '0x00..0xff, stack under/overflow), in-tree VM vs reference go-ethereum, outcome class / return data / '
                                              'logs / full state dump compared', 'snippets': nsnip, 'differences': sdiff,
                                      'excluded_documented_0xfe': sexcl, 'opcodes_or_labels': len(perop),
                                      'in_tree_only_through_core_ApplyMessage_vs_EVM_Call': (a.get('counters') or {}).get('apply_message_snippets', 0)}
    ctx.cov['driver_counters_intree'] = a.get('counters', {})
    ctx.cov['driver_counters_reference'] = b.get('counters', {})
    ctx.cov['exhaustive'] = True
    for t in traces[:2]:
        p = t['steps'][0]['post']
        ctx.sample({'id': t['id'], 'cfg': t['cfg'], 'code': {k: ['%s %s %s %s %s' % (o['op'], o['t'], o['k'], o['v'], o['val']) for o in v] for k, v in p['code'].items()},
                    'result': p['result']['class'], 'dev': p['dev']})
    ctx.assumptions += ['PARTIAL BY DESIGN: frame/state/budget/dispatch semantics are decided by the model; per-opcode arithmetic, memory and exact gas '
                        'numbers are only compared differentially on generated snippets, not specified',
                        'reference = go-ethereum v1.8.27, Constantinople rule set (EIP-1283 active), 2^62 gas; a program on which the reference runs a '
                        'frame out of gas is counted as unusable, not compared',
                        'programs are straight-line per contract (control flow = calls/creates/recursion up to the depth limit, the endless BURN loop); '
                        'loops and data-dependent jumps inside a contract are covered only by the snippet layer',
                        'documented deviations are modelled, not flagged: per-transaction budget (BURN programs are not run on the reference), '
                        'precompile at 0xfe; the GAS opcode value is excluded from comparison']
