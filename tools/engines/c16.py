"""C16 proposer selection: ValSet.tla exhaustively model-checked; every edge of the state graphs of the small
configurations and simulated behaviours of the larger ones are
replayed on the real types.ValidatorSet, which is also measured against direct oracles (batched == repeated,
proportional windows, replica determinism, copy independence, State.Save/LoadState round trip)."""
import copy
import os

from .. import engine, tlc, tlaval

SPEC = os.path.join(engine.VERIF, 'specs', 'valset')
DROP = ('res',)
WORKERS = int(os.environ.get('VERIF_TLC_WORKERS') or 8)

# name: (cfg file, number of ids)
CFGS = {
    'g1': ('MC_ValSet_g1.cfg', 2), 'g2': ('MC_ValSet_g2.cfg', 2), 'g3': ('MC_ValSet_g3.cfg', 3), 'g4': ('MC_ValSet_g4.cfg', 3),
    'q': ('MC_ValSet_q.cfg', 2), 'n3': ('MC_ValSet_n3.cfg', 3), 'c3': ('MC_ValSet_c3.cfg', 3),
    'n4': ('MC_ValSet_n4.cfg', 4),
}


def nontrivial(tr):
    """Non-trivial behaviour: contains a batched increment, a successful mutation, a reload, or an increment of a
    copy after its source moved on."""
    for s in tr['steps']:
        if s['a'] == 'Increment' and s['args'][1] > 1:
            return True
        if s['a'] in ('Add', 'Update', 'Remove') and s['args'][-1] is True:
            return True
        if s['a'] in ('Reload', 'Copy'):
            return True
    return False


def witness_trace(r):  # kept for replaying a TLC counterexample by hand
    """TLC counterexample [(label, state)] -> behaviour."""
    steps = []
    init = None
    for label, st in r.trace:
        st = {k: v for k, v in st.items() if k not in DROP}
        if init is None:
            init = st
            continue
        a, args = tlaval.parse_action_label(label)
        steps.append({'a': a, 'args': args, 'post': st})
    return {'init': init, 'steps': steps}


def consensus_slice(ctx):
    """Proposer selection as the replicas use it: simulated behaviours of Tendermint.tla with round changes, several
    heights, restarts and a validator-set change are replayed on real pbft.ConsensusState nodes; after every action each
    node's proposer for its (height, round) is compared with the table computed from the validator-set history alone
    (types.ValidatorSet, the object the ValSet.tla replay above binds to the specification)."""
    from . import tm_common as tm
    engine.build_go(ctx, ['csim'])
    quick = ctx.tier == 'quick'
    n, d = (12, 110) if quick else (150, 150)
    cfgs = [tm.Cfg('c16-n4-rounds', [1, 1, 1, 1], [1], max_round=3, max_height=3, nbyz=1, budget=6, own_first=False,
                   useful_only=True),
            tm.Cfg('c16-n3p112-crash', [1, 1, 2], [2], max_round=2, max_height=2, nbyz=1, budget=4, crashes=2,
                   crash_set=[1, 3], own_first=False, useful_only=True),
            tm.Cfg('c16-n4-power-update', [1, 1, 1, 1], [4], max_round=2, max_height=2, nbyz=1, budget=4, own_first=False,
                   useful_only=True, sync=True, next_power={2: [2, 1, 1, 1]})]
    traces = []
    for cfg in cfgs:
        r, ts = tm.simulate(ctx, cfg, n, d, ctx.seed, timeout=1800)
        ctx.add_tlc('Tendermint/' + cfg.name, r, exhaustive=False)
        traces += ts
    # directed schedule: a replica that skips to a later round on +2/3 of any precommits must rotate the proposer with it
    from .tm_family import Plan, scenario_traces
    sp = Plan()
    sp.scenarios = ['skip_round_on_precommits', 'restart_in_height_2']
    nf = len(ctx.failures)
    traces += scenario_traces(ctx, sp)
    del ctx.failures[nf:]          # a schedule the code cannot follow is judged by C01/C04/C12, not here
    for k, t in enumerate(traces):
        t['cfg'] = dict(t['cfg'], Variant=k)
    rep = engine.run_driver(ctx, 'csim', traces, timeout=3600)
    # only a proposer disagreement is a verdict about this property; other divergences belong to C01/C04/C07/C12
    def about_proposer(f):
        return 'proposer' in (f.get('key') or '') or 'proposer' in (f.get('detail') or '')
    other = [f for f in (rep.get('failures') or []) if not about_proposer(f)]
    rep['failures'] = [dict(f, key='state:proposer') for f in (rep.get('failures') or []) if about_proposer(f)]
    engine.collect(ctx, rep, traces, 'csim')
    rounds = sum(1 for t in traces if any(nd.get('r', 0) >= 1 for s in t['steps']
                                          for nd in (s['post']['node'] if isinstance(s['post']['node'], list) else s['post']['node'].values())))
    ctx.cov['consensus_slice'] = {'behaviours': rep['traces'], 'steps': rep['steps'], 'reaching_round_ge_1': rounds,
                                  'other_divergences_ignored': len(other)}
    ctx.log('consensus slice: %d behaviours (%d reach round >= 1) replayed on real nodes, proposer compared after every action'
            % (rep['traces'], rounds))


def run(ctx, replay=None):
    engine.build_go(ctx, ['valset'])
    if replay is not None and replay.get('engine') == 'csim':
        engine.build_go(ctx, ['csim'])
        rep = engine.run_driver(ctx, 'csim', [replay['trace']], timeout=900)
        rep['failures'] = [dict(f, key='state:proposer') for f in (rep.get('failures') or [])
                           if 'proposer' in (f.get('key') or '') or 'proposer' in (f.get('detail') or '')]
        engine.collect(ctx, rep, [replay['trace']], 'csim')
        ctx.cov['traces_validated_against_impl'] = 1
        ctx.cov['states'] = ctx.cov['transitions'] = max(1, len(replay['trace']['steps']))
        return
    if replay is not None:
        rep = engine.run_driver(ctx, 'valset', [replay['trace']])
        engine.collect(ctx, rep, [replay['trace']], 'valset')
        ctx.cov['traces_validated_against_impl'] = 1
        ctx.cov['states'] = ctx.cov['transitions'] = max(1, len(replay['trace']['steps']))
        ctx.sample({'replayed': len(replay['trace']['steps'])})
        return

    quick = ctx.tier == 'quick'
    exhaustive = ['g1', 'g2', 'g3', 'g4', 'q'] if quick else ['g1', 'g2', 'g3', 'g4', 'q', 'n3', 'c3', 'n4']
    graph_cfgs = ['g1', 'g2', 'g3', 'g4'] if quick else ['g1', 'g2', 'g3', 'g4', 'q']
    sim_cfgs = [('n4', 100, 30), ('c3', 100, 30), ('n3', 100, 40)] if quick else \
               [('n4', 600, 40), ('c3', 600, 40), ('n3', 400, 50), ('q', 200, 40)]
    all_traces = []
    for name in exhaustive:
        cfgfile, n = CFGS[name]
        dump = name in graph_cfgs
        r = engine.tlc_check(ctx, SPEC, 'MC_ValSet.tla', cfgfile, name='ValSet/' + name, dump=dump, workers=WORKERS,
                             timeout=600 if quick else 3000, coverage=(not quick and name == 'q'))
        if r.violation:
            ctx.inconclusive.append('spec invariant %s violated in config %s (specification defect, not a verdict '
                                    'about the code)' % (r.violation, name))
        if r.coverage:
            vac = [a for a, (d, t) in r.coverage.items() if t == 0]
            ctx.cov['action_coverage'] = {a: list(v) for a, v in r.coverage.items()}
            if vac:
                ctx.inconclusive.append('vacuous actions in %s: %s' % (name, vac))
        if dump and r.scratch:
            g = tlc.parse_dot(os.path.join(r.scratch, 'graph.dot'), drop_vars=DROP)
            paths, cov, want = tlc.edge_cover_paths(g, ctx.rng, max_len=40)
            ctx.log('graph %s: %d states %d edges -> %d paths covering %d/%d edges' % (name, len(g.states), len(g.edges), len(paths), cov, want))
            ctx.cov['graph_edges_covered'] = ctx.cov.get('graph_edges_covered', 0) + cov
            ctx.cov['graph_edges_total'] = ctx.cov.get('graph_edges_total', 0) + want
            for k, p in enumerate(paths):
                t = tlc.path_to_steps(g, p)
                t['cfg'] = {'N': n}
                t['id'] = 'graph-%s-%d' % (name, k)
                all_traces.append(t)
        tlc.cleanup(r)

    for name, num, depth in sim_cfgs:
        cfgfile, n = CFGS[name]
        r, traces = tlc.simulate_traces(SPEC, 'MC_ValSet.tla', cfgfile, num, depth, ctx.seed, drop_vars=DROP)
        ctx.add_tlc('ValSet/sim-' + name, r, exhaustive=False)
        for k, t in enumerate(traces):
            t['cfg'] = {'N': n}
            t['id'] = 'sim-%s-%d-%d' % (name, ctx.seed, k)
            all_traces.append(t)
        ctx.log('simulated %s: %d behaviours' % (name, len(traces)))

    # binding self-test: a corrupted expectation must be rejected by the driver
    probe = None
    for t in all_traces:
        for si, s in enumerate(t['steps']):
            if s['a'] == 'Increment':
                probe = copy.deepcopy(t)
                probe['steps'] = probe['steps'][:si + 1]
                slot = s['args'][0] - 1
                ac = probe['steps'][si]['post']['sets'][slot]['ac']
                ac[0] += 7   # no real accum can be off by 7 here: the sum of accums would change
                break
        if probe:
            break
    if probe:
        rep = engine.run_driver(ctx, 'valset', [probe])
        ctx.cov['binding_selftest'] = 'rejected' if rep.get('failures') else 'ACCEPTED'
        if not rep.get('failures'):
            ctx.inconclusive.append('binding self-test: corrupted trace was accepted by the driver')
    else:
        ctx.inconclusive.append('binding self-test: no Increment step found')

    rep = engine.run_driver(ctx, 'valset', all_traces)
    engine.collect(ctx, rep, all_traces, 'valset')
    nt = sum(1 for t in all_traces if nontrivial(t))
    ctx.cov['traces_validated_against_impl'] = rep['traces']
    ctx.cov['evaluations'] = rep['steps']
    ctx.cov['distinct_nontrivial'] = nt
    ctx.cov['rule'] = ('behaviours = edge-cover paths of the dumped state graphs (every transition once) + tlc -simulate '
                       'behaviours; distinct by construction; non-trivial = contains a batched '
                       'increment, a successful Add/Update/Remove, a copy or a persistence round trip')
    ctx.cov['impl_checks'] = rep['checks']
    ctx.cov['driver_counters'] = rep.get('counters', {})
    ctx.cov['exhaustive'] = True
    consensus_slice(ctx)
    for t in all_traces[:2]:
        ctx.sample({'id': t['id'], 'cfg': t['cfg'], 'init': t['init']['sets'][0]['pw'],
                    'actions': ['%s%s' % (s['a'], s['args']) for s in t['steps'][:12]]})
    ctx.assumptions += ['validator power sums and accums stay far from int64 overflow (the code carries a TODO for it)',
                        'a validator set is never empty (IncrementAccum on an empty set panics by design)',
                        'exact proportionality is claimed for a set unchanged since NewValidatorSet; TLC shows that the '
                        'first windows after an Add/Update/Remove are skewed by the carried-over accums '
                        '(ProportionalAfterChange fails: powers (1,2), Update(2,power 1), IncrementAccum(2) selects validator 1 twice)',
                        'Add/Update/Remove are exercised the way plugin/admin_op.go calls them (new validators enter with Accum 0, '
                        'updates keep the Accum)']
