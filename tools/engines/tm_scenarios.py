"""Hand-written adversarial schedules for Tendermint.tla (n = 4 equal powers, validator 4 Byzantine; round r of height 1 is
proposed by validator r+1).  Each is first run freely on the real nodes (to expand 'InternalAll'), then TLC follows the
expanded schedule through the specification (tm_common.scripted) so that the replay compares every node with the spec state
after every step."""

NIL = ['nil']


def H(r, p, inc=0, h=1):
    return ['H', h, r, p, inc]


def P(r, v, by, pol=-1, h=1):
    return {'t': 'P', 'h': h, 'r': r, 'v': v, 'pol': pol, 'by': by}


def B(r, v, h=1):
    return {'t': 'B', 'h': h, 'r': r, 'v': v}


def V(r, ty, by, v, h=1):
    return {'t': 'V', 'h': h, 'r': r, 'ty': ty, 'by': by, 'v': v}


def T(r, st, h=1):
    return {'h': h, 'r': r, 'st': st}


class S:
    def __init__(self):
        self.steps = []

    def a(self, name, *args):
        self.steps.append([name] + list(args))
        return self

    def start(self, nodes=(1, 2, 3)):
        for n in nodes:
            self.a('Fire', n).a('Timeout', n, T(0, 1))
        return self

    def all_internal(self, *nodes):
        for n in nodes:
            self.a('InternalAll', n)
        return self

    def timeout(self, n, r, st):
        return self.a('Fire', n).a('Timeout', n, T(r, st))


def lock_unlock():
    """node 1 alone sees the round-0 polka and locks v; round 0 ends with nil; in round 1 a polka for w (proposed by the unlocked
    node 2) makes node 1 prevote its lock first, then unlock on the later polka and lock w."""
    v, w = H(0, 1), H(1, 2)
    s = S().start().all_internal(1)
    for n in (2, 3):
        s.a('Peer', n, P(0, v, 1)).a('Peer', n, B(0, v)).all_internal(n)
    s.a('Peer', 1, V(0, 'pv', 2, v)).a('Peer', 1, V(0, 'pv', 3, v)).all_internal(1)          # node 1: polka, lock v, precommit v
    for n in (2, 3):                                                                           # 2,3: only 2/3-any, via Byzantine nil
        s.a('Peer', n, V(0, 'pv', 1, v)).a('Byz', n, V(0, 'pv', 4, NIL))
    for n in (2, 3):
        s.timeout(n, 0, 5).all_internal(n)                                                     # prevote-wait timeout: precommit nil
    # precommits of round 0: v, nil, nil (+ Byzantine nil): +2/3 nil everywhere -> round 1
    for n in (1, 2, 3):
        for by in (1, 2, 3):
            if by != n and by != 1:
                s.a('Peer', n, V(0, 'pc', by, NIL))
        s.a('Byz', n, V(0, 'pc', 4, NIL))
    s.all_internal(2)                                                                          # node 2 proposes w in round 1
    for n in (1, 3):
        s.a('Peer', n, P(1, w, 2)).a('Peer', n, B(1, w)).all_internal(n)                       # node 1 prevotes its lock v
    for n in (1, 2, 3):
        for by in (2, 3):
            if by != n:
                s.a('Peer', n, V(1, 'pv', by, w))
        s.a('Byz', n, V(1, 'pv', 4, w))
        s.all_internal(n)                                                                      # polka w: node 1 unlocks + locks w
    return s.steps


def relock_and_pol_proposal():
    """nodes 1 and 2 lock v in round 0, node 3 does not see the polka; the round ends without majority; node 2 proposes its locked
    block in round 1 with POLRound 0; nodes 1 and 2 re-lock in round 1 and the height commits."""
    v = H(0, 1)
    s = S().start().all_internal(1)
    for n in (2, 3):
        s.a('Peer', n, P(0, v, 1)).a('Peer', n, B(0, v)).all_internal(n)
    for n in (1, 2):
        for by in (1, 2, 3):
            if by != n:
                s.a('Peer', n, V(0, 'pv', by, v))
        s.all_internal(n)                                                                      # 1,2: polka, lock, precommit v
    s.a('Peer', 3, V(0, 'pv', 1, v)).a('Byz', 3, V(0, 'pv', 4, NIL))                           # 3: 2/3 any only
    s.timeout(3, 0, 5).all_internal(3)                                                         # 3 precommits nil
    # precommits: v, v, nil: no majority, +2/3 any -> precommit wait -> round 1
    for n in (1, 2, 3):
        for by in (1, 2, 3):
            if by != n:
                s.a('Peer', n, V(0, 'pc', by, v if by != 3 else NIL))
    for n in (1, 2, 3):
        s.timeout(n, 0, 7)
    s.all_internal(2)                                                                          # node 2 proposes v, POLRound 0
    for n in (1, 3):
        s.a('Peer', n, P(1, v, 2, 0)).a('Peer', n, B(1, v))
    s.a('Peer', 3, V(0, 'pv', 2, v))                                                           # node 3 now has the round-0 polka too
    s.all_internal(1, 3)
    for n in (1, 2, 3):
        for by in (1, 2, 3):
            if by != n:
                s.a('Peer', n, V(1, 'pv', by, v))
        s.all_internal(n)                                                                      # polka in round 1: relock (1,2), lock (3)
    for n in (1, 2, 3):
        for by in (1, 2, 3):
            if by != n:
                s.a('Peer', n, V(1, 'pc', by, v))
    return s.steps


def locked_without_proposal():
    """node 1 locks v in round 0; rounds 1 has a silent (Byzantine-free but lost) proposal: at the propose timeout the locked node
    must prevote its locked block, the others nil."""
    v = H(0, 1)
    s = S().start().all_internal(1)
    for n in (2, 3):
        s.a('Peer', n, P(0, v, 1)).a('Peer', n, B(0, v)).all_internal(n)
    s.a('Peer', 1, V(0, 'pv', 2, v)).a('Peer', 1, V(0, 'pv', 3, v)).all_internal(1)
    for n in (2, 3):
        s.a('Peer', n, V(0, 'pv', 1, v)).a('Byz', n, V(0, 'pv', 4, NIL))
    for n in (2, 3):
        s.timeout(n, 0, 5).all_internal(n)
    for n in (1, 2, 3):
        for by in (2, 3):
            if by != n:
                s.a('Peer', n, V(0, 'pc', by, NIL))
        s.a('Byz', n, V(0, 'pc', 4, NIL))
    # round 1: node 2's own proposal is queued but nobody (not even node 2) handles it before the propose timeout
    for n in (1, 3):
        s.timeout(n, 1, 3).all_internal(n)                                                     # node 1 prevotes v (locked), node 3 nil
    return s.steps


def stale_polka_must_not_unlock():
    """round 0: node 3 stays one prevote short of a polka for c and the round fails; round 1: node 3 alone sees the polka for b,
    locks it (LockedRound 1) and the round fails too; in round 2 the late round-0 prevote of node 2 completes a round-0 polka for
    c at node 3: it is OLDER than the lock and must not release it - node 3 prevotes b at the propose timeout of round 2."""
    c, b = H(0, 1), H(1, 2)
    s = S().start().all_internal(1)
    for n in (2, 3):
        s.a('Peer', n, P(0, c, 1)).a('Peer', n, B(0, c)).all_internal(n)
    # everybody sees only two prevotes for c plus the Byzantine nil: 2/3 any, no polka -> precommit nil
    s.a('Peer', 1, V(0, 'pv', 2, c)).a('Byz', 1, V(0, 'pv', 4, NIL))
    s.a('Peer', 2, V(0, 'pv', 1, c)).a('Byz', 2, V(0, 'pv', 4, NIL))
    s.a('Peer', 3, V(0, 'pv', 1, c)).a('Byz', 3, V(0, 'pv', 4, NIL))
    for n in (1, 2, 3):
        s.timeout(n, 0, 5).all_internal(n)
    for n in (1, 2, 3):
        for by in (1, 2, 3):
            if by != n:
                s.a('Peer', n, V(0, 'pc', by, NIL))                                            # +2/3 nil -> round 1
    s.all_internal(2)                                                                          # node 2 proposes b
    for n in (1, 3):
        s.a('Peer', n, P(1, b, 2)).a('Peer', n, B(1, b)).all_internal(n)
    s.a('Peer', 3, V(1, 'pv', 1, b)).a('Peer', 3, V(1, 'pv', 2, b)).all_internal(3)            # node 3: polka b, lock (round 1)
    s.a('Peer', 1, V(1, 'pv', 2, b)).a('Byz', 1, V(1, 'pv', 4, NIL))
    s.a('Peer', 2, V(1, 'pv', 1, b)).a('Byz', 2, V(1, 'pv', 4, NIL))
    for n in (1, 2):
        s.timeout(n, 1, 5).all_internal(n)                                                     # 1,2 precommit nil
    for n in (1, 2, 3):
        for by in (1, 2):
            if by != n:
                s.a('Peer', n, V(1, 'pc', by, NIL))
        s.a('Byz', n, V(1, 'pc', 4, NIL))                                                      # +2/3 nil -> round 2
    s.a('Peer', 3, V(0, 'pv', 2, c))                                                           # the straggler: round-0 polka for c
    s.timeout(3, 2, 3).all_internal(3)                                                         # node 3 (proposer of round 2) ... prevotes b
    return s.steps


def many_rounds_then_restart():
    """Four rounds of height 1 fail with split votes (three timers per round and node: propose, prevote-wait, precommit-wait),
    so that each node's WAL of the height holds more than ten timeouts; a real Start() of node 2 on a copy of its directory
    (RealStartProbe, appended by the engine) must then replay all of them and come up where the stepped restart does."""
    s = S().start()
    for r in range(4):
        x = H(r, r + 1) if r < 3 else H(0, 1)               # a block the Byzantine validator votes for (split, no majority)
        if r < 3:
            s.all_internal(r + 1)                            # the proposer's own proposal reaches only itself
        for n in (1, 2, 3):
            if n != r + 1:
                s.timeout(n, r, 3).all_internal(n)           # propose timeout: prevote nil
        for n in (1, 2, 3):
            by = n % 3 + 1
            s.a('Peer', n, V(r, 'pv', by, x if (r < 3 and by == r + 1) else NIL))
            s.a('Byz', n, V(r, 'pv', 4, x if not (r < 3 and (by == r + 1 or n == r + 1)) else NIL))
        for n in (1, 2, 3):
            s.timeout(n, r, 5).all_internal(n)               # prevote-wait timeout: precommit nil
        for n in (1, 2, 3):
            by = n % 3 + 1
            s.a('Peer', n, V(r, 'pc', by, NIL))
            s.a('Byz', n, V(r, 'pc', 4, x))
        for n in (1, 2, 3):
            s.timeout(n, r, 7)                               # precommit-wait timeout: next round
    return s.steps


def lock_survives_restart():
    """locked_without_proposal, then the locked node - which has meanwhile signed its round-1 prevote - is killed and started
    again: WAL replay re-runs the handlers that took the lock, while the signer refuses to sign the old precommit anew; the
    lock must be back all the same (compared after the restart)."""
    s = S()
    s.steps = locked_without_proposal()
    s.a('Crash', 1).a('Restart', 1).all_internal(1)
    return s.steps


def restart_in_height_2():
    """height 1 is decided in round 0 by everybody; node 1 is killed in the NewHeight step of height 2 and started again: the
    last commit (the precommits of height 1, which a proposer of height 2 must embed) has to be rebuilt from the stored
    seen-commit."""
    v = H(0, 1)
    s = S().start().all_internal(1)
    for n in (2, 3):
        s.a('Peer', n, P(0, v, 1)).a('Peer', n, B(0, v)).all_internal(n)
    for n in (1, 2, 3):
        for by in (1, 2, 3):
            if by != n:
                s.a('Peer', n, V(0, 'pv', by, v))
        s.all_internal(n)
    for n in (1, 2, 3):
        for by in (1, 2, 3):
            if by != n:
                s.a('Peer', n, V(0, 'pc', by, v))
        s.all_internal(n)
    s.a('Crash', 1).a('Restart', 1).all_internal(1)
    s.a('Crash', 2).a('Restart', 2).all_internal(2)
    return s.steps


def skip_round_on_precommits():
    """nodes 1 and 2 go through round 0 and reach the precommit step of round 1 while node 3 hears nothing; then node 3, still
    in round 0, receives the round-1 precommits nil, nil and (Byzantine) w: +2/3 of any precommits of a later round without a
    majority - it must move to round 1 WITH the proposer rotation of round 1 (and wait for the precommit timeout there)."""
    w = H(1, 2)
    s = S().start()
    for n in (1, 2):
        s.timeout(n, 0, 3).all_internal(n)                   # nobody handles node 1's proposal: prevote nil
    s.a('Peer', 1, V(0, 'pv', 2, NIL)).a('Byz', 1, V(0, 'pv', 4, NIL)).all_internal(1)
    s.a('Peer', 2, V(0, 'pv', 1, NIL)).a('Byz', 2, V(0, 'pv', 4, NIL)).all_internal(2)
    s.a('Peer', 1, V(0, 'pc', 2, NIL)).a('Byz', 1, V(0, 'pc', 4, NIL))
    s.a('Peer', 2, V(0, 'pc', 1, NIL)).a('Byz', 2, V(0, 'pc', 4, NIL))
    s.all_internal(2)                                        # round 1: node 2 proposes w and prevotes it
    s.timeout(1, 1, 3).all_internal(1)                       # node 1 does not hear the proposal: prevote nil
    s.a('Peer', 1, V(1, 'pv', 2, w)).a('Byz', 1, V(1, 'pv', 4, NIL))
    s.a('Peer', 2, V(1, 'pv', 1, NIL)).a('Byz', 2, V(1, 'pv', 4, NIL))
    for n in (1, 2):
        s.timeout(n, 1, 5).all_internal(n)                   # prevote-wait: precommit nil
    s.a('Peer', 3, V(1, 'pc', 1, NIL)).a('Peer', 3, V(1, 'pc', 2, NIL)).a('Byz', 3, V(1, 'pc', 4, w))
    s.all_internal(3)
    return s.steps


# per-scenario overrides of the scenario configuration and pseudo steps appended after TLC has followed the schedule

def own_parts_after_commit_for_other():
    """node 2 misses the round-0 proposal v, goes through round 0 with nil votes and becomes the proposer of round 1: its own
    proposal w and the part of w wait on its internal queue when the last precommit for v arrives (+2/3 for a block it does not
    have: the part set is re-created for v's parts header).  Its own part of w must not enter that part set; the genuine part
    of v that follows must complete it and the height must commit (regression of 369a7e8: own parts were not verified)."""
    v = H(0, 1)
    s = S().start().all_internal(1)                                                            # node 1 proposes v
    s.a('Peer', 3, P(0, v, 1)).a('Peer', 3, B(0, v)).all_internal(3)
    for n in (1, 3):
        s.a('Peer', n, V(0, 'pv', 4 - n, v)).a('Byz', n, V(0, 'pv', 4, v)).all_internal(n)     # 1,3: polka, lock, precommit v
    s.timeout(2, 0, 3).all_internal(2)                                                         # node 2: no proposal, prevote nil
    s.a('Peer', 2, V(0, 'pv', 1, v)).a('Byz', 2, V(0, 'pv', 4, NIL))                           # 2/3 any
    s.timeout(2, 0, 5).all_internal(2)                                                         # precommit nil
    s.a('Peer', 2, V(0, 'pc', 1, v)).a('Peer', 2, V(0, 'pc', 3, v))                            # 2/3 any, no majority
    s.timeout(2, 0, 7)                                                                         # round 1: node 2 proposes w (queued)
    s.a('Byz', 2, V(0, 'pc', 4, v))                                                            # +2/3 precommits for v: commit step, parts of v awaited
    s.all_internal(2)                                                                          # own proposal and own part of w
    s.a('Peer', 2, B(0, v)).all_internal(2)                                                    # the genuine part: commit
    return s.steps

CFG = {'many_rounds_then_restart': {'max_round': 4}, 'lock_survives_restart': {'crashes': 1, 'crash_set': [1]},
       'restart_in_height_2': {'crashes': 2, 'crash_set': [1, 2], 'max_height': 2, 'max_round': 1}}
APPEND = {'many_rounds_then_restart': [['RealStartProbe', 2, 'realticker'], ['RealStartProbe', 1, 'realticker']]}

ALL = {'restart_in_height_2': restart_in_height_2, 'skip_round_on_precommits': skip_round_on_precommits,
       'many_rounds_then_restart': many_rounds_then_restart, 'lock_survives_restart': lock_survives_restart, 'lock_unlock': lock_unlock, 'relock_and_pol_proposal': relock_and_pol_proposal,
       'locked_without_proposal': locked_without_proposal, 'stale_polka_must_not_unlock': stale_polka_must_not_unlock,
       'own_parts_after_commit_for_other': own_parts_after_commit_for_other}
