"""C15 vote accounting: VoteSet.tla exhaustively model-checked; every edge of the state graph of the
small configuration, plus simulated behaviours of the larger ones, replayed on the real types.VoteSet."""
import copy
import os

from .. import engine, tlc

SPEC = os.path.join(engine.VERIF, 'specs', 'voteset')
DROP = ('res', 'offered', 'accepted')

CFGS = {
    # name: (cfg file, trace cfg for the driver)
    'q':    ('MC_VoteSet_q.cfg',    {'N': 3, 'Power': [1, 1, 2], 'Blocks': ['nil', 'A'], 'Peers': ['p1']}),
    '112':  ('MC_VoteSet_112.cfg',  {'N': 3, 'Power': [1, 1, 2], 'Blocks': ['nil', 'A', 'B'], 'Peers': ['p1', 'p2']}),
    '1111': ('MC_VoteSet_1111.cfg', {'N': 4, 'Power': [1, 1, 1, 1], 'Blocks': ['nil', 'A', 'B'], 'Peers': ['p1', 'p2']}),
    '123':  ('MC_VoteSet_123.cfg',  {'N': 3, 'Power': [1, 2, 3], 'Blocks': ['nil', 'A', 'B'], 'Peers': ['p1']}),
    '3':    ('MC_VoteSet_3.cfg',    {'N': 1, 'Power': [3], 'Blocks': ['nil', 'A', 'B'], 'Peers': ['p1']}),
    '12':   ('MC_VoteSet_12.cfg',   {'N': 2, 'Power': [1, 2], 'Blocks': ['nil', 'A', 'B'], 'Peers': ['p1', 'p2']}),
    # total voting power = 2 (mod 3): the 2/3 boundary is not a multiple of the arithmetic used
    '122':  ('MC_VoteSet_122.cfg',  {'N': 3, 'Power': [1, 2, 2], 'Blocks': ['nil', 'A', 'B'], 'Peers': ['p1', 'p2']}),
    '11111': ('MC_VoteSet_11111.cfg', {'N': 5, 'Power': [1, 1, 1, 1, 1], 'Blocks': ['nil', 'A'], 'Peers': ['p1']}),
}


def nontrivial(tr):
    """A behaviour is non-trivial when it contains a conflicting vote, a peer claim or reaches a majority."""
    for s in tr['steps']:
        if s['a'] == 'SetPeerMaj23' or (s['a'] == 'AddVote' and str(s['args'][3]).startswith('conflict')):
            return True
        if s['post'].get('maj23', 'none') != 'none':
            return True
    return False


def run(ctx, replay=None):
    engine.build_go(ctx, ['voteset'])
    if replay is not None:
        drv = replay.get('engine') or 'voteset'
        if drv == 'hvs':
            engine.build_go(ctx, ['hvs'])
        rep = engine.run_driver(ctx, drv, [replay['trace']])
        engine.collect(ctx, rep, [replay['trace']], drv)
        ctx.cov['traces_validated_against_impl'] = 1
        ctx.cov['states'] = ctx.cov['transitions'] = max(1, len(replay['trace']['steps']))
        ctx.sample({'replayed': len(replay['trace']['steps'])})
        return

    quick = ctx.tier == 'quick'
    from . import hvs_slice
    hvs_slice.run(ctx, quick)
    exhaustive = ['q', '122', '12', '3'] if quick else ['q', '112', '122', '123', '3', '12', '1111', '11111']
    graph_cfgs = ['q', '3', '12'] if quick else ['q', '3', '12']   # '3' and '12': total power divisible by 3 (exactly 2/3 is NOT a majority)
    sim_cfgs = [('1111', 120, 16), ('112', 80, 14), ('122', 80, 14), ('11111', 80, 16), ('123', 80, 14), ('3', 20, 8)] if quick else \
               [('1111', 1500, 18), ('112', 800, 16), ('122', 800, 16), ('11111', 800, 18), ('123', 800, 16), ('12', 300, 12), ('3', 50, 8)]
    all_traces = []
    for name in exhaustive:
        cfgfile, tcfg = CFGS[name]
        dump = name in graph_cfgs
        r = engine.tlc_check(ctx, SPEC, 'MC_VoteSet.tla', cfgfile, name='VoteSet/' + name, dump=dump,
                             timeout=600 if quick else 3000)
        if r.violation:
            ctx.inconclusive.append('spec invariant %s violated in config %s (specification defect, not a verdict '
                                    'about the code)' % (r.violation, name))
        if dump and r.scratch:
            g = tlc.parse_dot(os.path.join(r.scratch, 'graph.dot'), drop_vars=DROP)
            paths, cov, want = tlc.edge_cover_paths(g, ctx.rng, max_len=30)
            ctx.log('graph %s: %d states %d edges -> %d paths covering %d/%d edges' % (name, len(g.states), len(g.edges), len(paths), cov, want))
            ctx.cov.setdefault('graph_edges_covered', 0)
            ctx.cov['graph_edges_covered'] += cov
            ctx.cov.setdefault('graph_edges_total', 0)
            ctx.cov['graph_edges_total'] += want
            for k, p in enumerate(paths):
                t = tlc.path_to_steps(g, p)
                t['cfg'] = tcfg
                t['id'] = 'graph-%s-%d' % (name, k)
                all_traces.append(t)
        tlc.cleanup(r)
    for name, num, depth in sim_cfgs:
        cfgfile, tcfg = CFGS[name]
        r, traces = tlc.simulate_traces(SPEC, 'MC_VoteSet.tla', cfgfile, num, depth, ctx.seed, drop_vars=DROP)
        ctx.add_tlc('VoteSet/sim-' + name, r, exhaustive=False)
        for k, t in enumerate(traces):
            t['cfg'] = tcfg
            t['id'] = 'sim-%s-%d-%d' % (name, ctx.seed, k)
            all_traces.append(t)
        ctx.log('simulated %s: %d behaviours' % (name, len(traces)))

    # binding self-test: a corrupted expectation must be rejected by the driver
    probe = None
    for t in all_traces:
        for si, s in enumerate(t['steps']):
            if s['a'] == 'AddVote' and s['args'][3] == 'added':
                probe = copy.deepcopy(t)
                probe['steps'] = probe['steps'][:si + 1]
                probe['steps'][si]['post']['sum'] = probe['steps'][si]['post']['sum'] + 1
                probe['steps'][si]['args'][3] = 'dup'
                break
        if probe:
            break
    if probe:
        rep = engine.run_driver(ctx, 'voteset', [probe])
        ctx.cov['binding_selftest'] = 'rejected' if rep.get("failures") else "ACCEPTED"
        if not rep.get('failures'):
            ctx.inconclusive.append('binding self-test: corrupted trace was accepted by the driver')

    for k, t in enumerate(all_traces):
        t['cfg'] = dict(t['cfg'], Variant=k)      # concretisation variant (keys, step, validator-set history)
    rep = engine.run_driver(ctx, 'voteset', all_traces)
    engine.collect(ctx, rep, all_traces, 'voteset')
    nt = sum(1 for t in all_traces if nontrivial(t))
    ctx.cov['traces_validated_against_impl'] = rep['traces']
    ctx.cov['evaluations'] = rep['steps']
    ctx.cov['distinct_nontrivial'] = nt
    ctx.cov['rule'] = ('behaviours = edge-cover paths of the dumped state graph(s) + tlc -simulate behaviours; '
                       'distinct by construction (distinct edge sets / distinct random walks); non-trivial = contains '
                       'a conflicting vote, a peer majority claim, or reaches a 2/3 majority')
    ctx.cov['impl_checks'] = rep['checks']
    ctx.cov['driver_counters'] = rep.get('counters', {})
    ctx.cov['exhaustive'] = True
    for t in all_traces[:2]:
        ctx.sample({'id': t['id'], 'cfg': t['cfg'], 'actions': ['%s%s' % (s['a'], s['args']) for s in t['steps'][:12]]})
    ctx.assumptions += ['ed25519 signatures are unforgeable and deterministic (symbolic sigOK in the spec)',
                        'validator power sums stay far from int64 overflow',
                        'negative validator index / empty address (deliberate panic in addVote) is decided under C08']
