"""C11 state trie / StateDB: Trie.tla and StateDB.tla model-checked; behaviours (every edge of the Trie state
graph, ALL paths of bounded length through it, simulated behaviours of the larger configurations) replayed on
the real trie.Trie / SecureTrie / state.StateDB of the in-tree code AND of reference go-ethereum v1.8.27 (second
binary, same source text, same vectors); the class -> root tables of the two binaries must be equal."""
import copy
import json
import os
import re
from concurrent.futures import ThreadPoolExecutor

from .. import engine, tlc

SPEC = os.path.join(engine.VERIF, 'specs', 'statedb')
REF = os.path.join(engine.VERIF, 'harness-ref')
DROP = ('res', 'saved')
IN_TREE = 'github.com/dappledger/AnnChain/eth/'
UPSTREAM = 'github.com/ethereum/go-ethereum/'


def _write_if_changed(path, text):
    os.makedirs(os.path.dirname(path), exist_ok=True)
    if not os.path.exists(path) or open(path).read() != text:
        with open(path, 'w') as f:
            f.write(text)


def sync_ref(name, refname):
    """The reference driver is the in-tree driver's text with the import paths replaced."""
    for f in sorted(os.listdir(os.path.join(engine.HARNESS, 'mbt'))):
        if f.endswith('.go'):
            _write_if_changed(os.path.join(REF, 'mbt', f), open(os.path.join(engine.HARNESS, 'mbt', f)).read())
    srcdir = os.path.join(engine.HARNESS, 'cmd', name)
    for f in sorted(os.listdir(srcdir)):
        if not f.endswith('.go') or f.endswith('_intree.go'):
            continue
        s = open(os.path.join(srcdir, f)).read()
        s = s.replace(IN_TREE, UPSTREAM).replace('"verifharness/mbt"', '"verifref/mbt"')
        s = '// Code generated from harness/cmd/%s/%s by tools/engines (import paths replaced). DO NOT EDIT.\n' % (name, f) + s
        _write_if_changed(os.path.join(REF, 'cmd', refname, f), s)


def build(ctx):
    sync_ref('statedb', 'refstatedb')
    engine.build_go(ctx, ['statedb'])
    engine.build_go(ctx, ['refstatedb'], module_dir=REF)


def graph_json(g):
    ids = {sid: i for i, sid in enumerate(g.states)}
    return {'init': ids[g.init[0]], 'nodes': [g.states[s] for s in g.states],
            'edges': [[ids[e[0]], e[1], e[2], ids[e[3]]] for e in g.edges if e[0] in ids and e[3] in ids]}


def run_both(ctx, traces, timeout=2400):
    """Run the same vectors on the in-tree and the reference binary (concurrently); returns (rep_intree, rep_ref)."""
    with ThreadPoolExecutor(2) as ex:
        fa = ex.submit(engine.run_driver, ctx, 'statedb', traces, timeout=timeout)
        fb = ex.submit(engine.run_driver, ctx, 'refstatedb', traces, timeout=timeout, module_dir=REF)
        return fa.result(), fb.result()


def collect_both(ctx, a, b, traces, graphs=None):
    """Failures of the reference binary mean the MODEL (or the driver) disagrees with the reference: drift, never
    a violation.  A failure of the in-tree binary that the reference binary reports identically is the same drift."""
    def conv(f):
        ti = f.get('trace', 0)
        tr = traces[ti] if 0 <= ti < len(traces) else None
        if tr is not None and tr['cfg'].get('kind') == 'triegraph' and isinstance(f.get('got'), dict) and graphs:
            g = graphs[tr['cfg']['graph_name']]
            t = tlc.path_to_steps(g, f['got'].get('path') or [])
            t['cfg'] = dict({k: v for k, v in tr['cfg'].items() if k not in ('graph', 'graph_name', 'depth')}, kind='trie')
            t['id'] = tr['id'] + '-history'
            tr = t
        return tr
    # reference binary: a MISMATCH with the model means the model does not describe the reference -> drift.
    # A model-independent property observation (kind property/panic) on the reference is not a verdict about the
    # in-tree code; it is only counted.
    refkeys = set()
    for f in (b.get('failures') or []):
        refkeys.add((f.get('trace'), f.get('step'), f.get('key')))
        if f.get('kind') in ('property', 'panic'):
            ctx.cov['reference_property_observations'] = ctx.cov.get('reference_property_observations', 0) + 1
            continue
        ctx.failures.append({'key': 'reference:' + str(f.get('key')), 'property': False, 'kind': f.get('kind'),
                             'detail': 'reference go-ethereum driver: ' + f.get('detail', '')[:3000], 'action': f.get('action'),
                             'step': f.get('step'), 'want': f.get('want'), 'got': f.get('got'), 'engine': 'refstatedb',
                             'replay': {'engine': 'statedb', 'args': [], 'trace': conv(f)}})
    # in-tree binary: a mismatch with the model that the reference shows identically is the same drift; a property
    # observation stays a property observation (then marked as inherited from the reference)
    for f in (a.get('failures') or []):
        same = (f.get('trace'), f.get('step'), f.get('key')) in refkeys
        prop = bool(f.get('property')) and not (same and f.get('kind') == 'mismatch')
        ctx.failures.append({'key': f.get('key') or f.get('kind'), 'property': prop,
                             'kind': f.get('kind'), 'detail': f.get('detail', '')[:4000] + (' [reference go-ethereum v1.8.27 behaves identically]' if same else ''),
                             'action': f.get('action'),
                             'step': f.get('step'), 'want': f.get('want'), 'got': f.get('got'), 'engine': 'statedb',
                             'replay': {'engine': 'statedb', 'args': [], 'trace': conv(f)}})
    # the reference's root for every abstract content class must be the in-tree root
    ra, rb = a['extra'].get('roots') or {}, b['extra'].get('roots') or {}
    first = a['extra'].get('root_trace') or {}
    diff = [k for k in ra if k in rb and ra[k] != rb[k]]
    only = [k for k in set(ra) ^ set(rb)]
    ctx.cov['roots_compared_with_reference'] = ctx.cov.get('roots_compared_with_reference', 0) + len(set(ra) & set(rb))
    for k in sorted(diff)[:3]:
        ti = first.get(k, 0)
        ctx.failures.append({'key': 'reference-root:' + k.split('/')[0].split('|')[0], 'property': True, 'kind': 'property',
                             'detail': 'in-tree root differs from reference go-ethereum for content class ' + k[:600],
                             'want': rb[k], 'got': ra[k], 'engine': 'statedb', 'action': None, 'step': None,
                             'replay': {'engine': 'statedb', 'args': [], 'trace': traces[ti] if ti < len(traces) else None}})
    if only and not (a.get('failures') or b.get('failures')):
        ctx.inconclusive.append('class tables of the two binaries have different key sets (%d keys), e.g. %s' % (len(only), only[0][:200]))
    return len(diff)


VARIANTS = [  # (flavor, keymap, valmap)
    ('trie', 0, 0), ('trie', 1, 1), ('trie', 2, 2), ('trie', 3, 3), ('trie', 0, 2), ('trie', 3, 1), ('trie', 2, 0),
    ('trie', 2, 5), ('trie', 0, 5), ('trie', 3, 6), ('trie', 2, 7), ('trie', 0, 7), ('trie', 1, 4),
    ('secure', 0, 0), ('secure', 1, 3), ('secure', 2, 6),
]


def variant_cfg(v, keys, seed=None):
    fl, km, vm = v
    return {'kind': 'trie', 'flavor': fl, 'keymap': km, 'valmap': vm, 'keys': keys}


def nontrivial_trie(t):
    acts = [s['a'] for s in t['steps']]
    return ('Delete' in acts and 'Update' in acts) and ('Commit' in acts or 'Reopen' in acts or 'Prove' in acts or 'Hash' in acts)


def nontrivial_sdb(t):
    acts = [s['a'] for s in t['steps']]
    return 'RevertToSnapshot' in acts or 'Commit' in acts or 'Reopen' in acts or 'Suicide' in acts


def run(ctx, replay=None):
    build(ctx)
    if replay is not None:
        tr = replay['trace']
        a, b = run_both(ctx, [tr])
        collect_both(ctx, a, b, [tr])
        ctx.cov['traces_validated_against_impl'] = 1
        ctx.cov['states'] = ctx.cov['transitions'] = max(1, len(tr.get('steps') or []))
        ctx.sample({'replayed': len(tr.get('steps') or [])})
        return

    quick = ctx.tier == 'quick'
    W = 3 if quick else 6
    TO = 600 if quick else 3000
    traces = []
    graphs = {}
    K3 = ['k1', 'k2', 'k3']
    K6 = ['k1', 'k2', 'k3', 'k4', 'k5', 'k6']
    rnd_km = 4 + ctx.seed  # seeded keymap: six 32-byte keys sharing random nibble-prefix lengths
    allv = VARIANTS + [('trie', rnd_km, 8 + ctx.seed), ('secure', rnd_km, 100 + ctx.seed), ('trie', 2, 200 + ctx.seed), ('trie', 0, 300 + ctx.seed)]

    # ---- all TLC work runs concurrently (exhaustive checks of Trie.tla / StateDB.tla, simulations)
    checks = [('Trie', 'q', 'MC_Trie.tla', 'MC_Trie_q.cfg', True), ('Trie', 'k4', 'MC_Trie.tla', 'MC_Trie_k4.cfg', False),
              ('StateDB', 'q', 'MC_StateDB.tla', 'MC_StateDB_q.cfg', False)]
    if not quick:
        checks += [('Trie', 'k6', 'MC_Trie.tla', 'MC_Trie_k6.cfg', False), ('StateDB', 'qf', 'MC_StateDB.tla', 'MC_StateDB_qf.cfg', False),
                   ('StateDB', 'm', 'MC_StateDB.tla', 'MC_StateDB_m.cfg', False),
                   ('StateDB', 't', 'MC_StateDB.tla', 'MC_StateDB_t.cfg', False)]
    sims = [('Trie', 'k6s', 'MC_Trie.tla', 'MC_Trie_k6s.cfg') + ((150, 30) if quick else (600, 40)),
            ('StateDB', 'q', 'MC_StateDB.tla', 'MC_StateDB_q.cfg') + ((100, 25) if quick else (500, 30)),
            ('StateDB', 'qf', 'MC_StateDB.tla', 'MC_StateDB_qf.cfg') + ((80, 25) if quick else (300, 30)),
            ('StateDB', 'sim', 'MC_StateDB.tla', 'MC_StateDB_sim.cfg') + ((350, 40) if quick else (2000, 50)),
            ('StateDB', 'simf', 'MC_StateDB.tla', 'MC_StateDB_simf.cfg') + ((120, 40) if quick else (700, 50))]
    with ThreadPoolExecutor(3 if quick else 4) as ex:
        fchecks = [(c, ex.submit(engine.tlc_check, ctx, SPEC, c[2], c[3], name='%s/%s' % (c[0], c[1]), dump=c[4], workers=W, timeout=TO))
                   for c in checks]
        fsims = [(s, ex.submit(tlc.simulate_traces, SPEC, s[2], s[3], s[4], s[5], ctx.seed, drop_vars=DROP, timeout=TO)) for s in sims]
        rchecks = [(c, f.result()) for c, f in fchecks]
        rsims = [(s, f.result()) for s, f in fsims]

    for c, r in rchecks:
        if r.violation:
            ctx.inconclusive.append('spec property %s violated in %s/%s (specification defect, not a verdict about the code)' % (r.violation, c[0], c[1]))
        if c[4] and r.scratch:
            # ---- every edge of the Trie state graph at least once, each path under a key/value concretisation
            g = tlc.parse_dot(os.path.join(r.scratch, 'graph.dot'), drop_vars=DROP)
            graphs[c[1]] = g
            paths, cov, want = tlc.edge_cover_paths(g, ctx.rng, max_len=24)
            ctx.log('Trie graph %s: %d states %d edges -> %d paths covering %d/%d edges' % (c[1], len(g.states), len(g.edges), len(paths), cov, want))
            ctx.cov['graph_edges_covered'] = ctx.cov.get('graph_edges_covered', 0) + cov
            ctx.cov['graph_edges_total'] = ctx.cov.get('graph_edges_total', 0) + want
            for k, p in enumerate(paths):
                for j in range(1 if quick else 2):
                    t = tlc.path_to_steps(g, p)
                    v = allv[(k + j * 5 + ctx.seed) % len(allv)]
                    t['cfg'] = variant_cfg(v, K3)
                    t['id'] = 'trie-graph-%s-%d-%s-km%d-vm%d' % (c[1], k, v[0], v[1], v[2])
                    traces.append(t)
        tlc.cleanup(r)

    # ---- ALL bounded histories through the graph (history independence), several concretisations
    depth = 4
    gj = graph_json(graphs['q']) if 'q' in graphs else None
    gvariants = [(4, v) for v in ([('trie', 0, 0), ('trie', 1, 1), ('trie', 2, 5), ('trie', 0, 7), ('secure', 0, 3), ('trie', rnd_km, 8 + ctx.seed)] if quick else allv)]
    if not quick:
        gvariants += [(5, ('trie', 2, 5))]
    if gj:
        for d, v in gvariants:
            traces.append({'id': 'triegraph-q-d%d-%s-km%d-vm%d' % (d, v[0], v[1], v[2]), 'init': None, 'steps': [],
                           'cfg': dict(variant_cfg(v, K3), kind='triegraph', graph=gj, graph_name='q', depth=d)})
            depth = max(depth, d)
    else:
        ctx.inconclusive.append('no Trie state graph was produced')

    # ---- simulated behaviours
    sdb_cfgs = {'q': {'kind': 'statedb', 'addrs': ['a1'], 'slots': ['s1'], 'del': True},
                'qf': {'kind': 'statedb', 'addrs': ['a1'], 'slots': ['s1'], 'del': False},
                'sim': {'kind': 'statedb', 'addrs': ['a1', 'a2'], 'slots': ['s1', 's2'], 'del': True},
                'simf': {'kind': 'statedb', 'addrs': ['a1', 'a2'], 'slots': ['s1', 's2'], 'del': False}}
    for s, (r, ts) in rsims:
        ctx.add_tlc('%s/sim-%s' % (s[0], s[1]), r, exhaustive=False)
        for k, t in enumerate(ts):
            if s[0] == 'Trie':
                v = allv[k % len(allv)]
                t['cfg'] = variant_cfg(v, K6)
                t['id'] = 'trie-sim-%s-%d-%d-%s-km%d-vm%d' % (s[1], ctx.seed, k, v[0], v[1], v[2])
            else:
                # storage value classes: leading / trailing zero bytes, 1 next to 0x100, lone top byte (driver: valset)
                t['cfg'] = dict(sdb_cfgs[s[1]], valset=(k + ctx.seed) % 4)
                t['id'] = 'statedb-sim-%s-%d-%d' % (s[1], ctx.seed, k)
            traces.append(t)
        ctx.log('simulated %s/%s: %d behaviours' % (s[0], s[1], len(ts)))

    # ---- binding self-test: corrupted expectations must be rejected by the driver
    probes = []
    for t in traces:
        if t['cfg']['kind'] == 'trie' and not any(p['cfg']['kind'] == 'trie' for p in probes):
            for si, s in enumerate(t['steps']):
                if s['a'] == 'Update':
                    p = copy.deepcopy(t)
                    p['steps'] = p['steps'][:si + 1]
                    p['steps'][si]['post']['content'][s['args'][0]] = 0
                    probes.append(p)
                    break
        if t['cfg']['kind'] == 'statedb' and not any(p['cfg']['kind'] == 'statedb' for p in probes):
            for si, s in enumerate(t['steps']):
                if s['a'] == 'SetState' and s['post']['acc'][s['args'][0]]['st'][s['args'][1]] == s['args'][2] and s['args'][2] != 0:
                    p = copy.deepcopy(t)
                    p['steps'] = p['steps'][:si + 1]
                    p['steps'][si]['post']['acc'][s['args'][0]]['st'][s['args'][1]] = 0
                    probes.append(p)
                    break
        if len(probes) == 2:
            break
    rejected = 0
    for p in probes:
        rp = engine.run_driver(ctx, 'statedb', [p])
        rejected += 1 if rp.get('failures') else 0
    ctx.cov['binding_selftest'] = 'rejected %d/%d corrupted expectations' % (rejected, len(probes))
    if rejected != len(probes) or len(probes) < 2:
        ctx.inconclusive.append('binding self-test: a corrupted trace was accepted by the driver (%d/%d rejected)' % (rejected, len(probes)))

    # ---- replay on both code bases
    a, b = run_both(ctx, traces)
    ndiff = collect_both(ctx, a, b, traces, graphs)
    ctx.log('in-tree: %d traces %d steps %d checks %d failures; reference: %d failures; %d class roots, %d differ' % (
        a['traces'], a['steps'], a['checks'], len(a.get('failures') or []), len(b.get('failures') or []),
        len(a['extra'].get('roots') or {}), ndiff))
    step_traces = [t for t in traces if t['cfg']['kind'] != 'triegraph']
    nt = sum(1 for t in step_traces if (nontrivial_trie(t) if t['cfg']['kind'] == 'trie' else nontrivial_sdb(t)))
    hist = (a.get('counters') or {}).get('graph_histories', 0)
    ctx.cov['traces_validated_against_impl'] = len(step_traces) + hist
    ctx.cov['evaluations'] = a['steps']
    ctx.cov['distinct_nontrivial'] = nt
    ctx.cov['rule'] = ('step behaviours = edge-cover paths of the Trie state graph (each under a key/value concretisation) + '
                       'tlc -simulate behaviours of Trie/k6 and StateDB; non-trivial = trie behaviour with an update AND a delete AND '
                       'a hash/commit/reopen/proof, or StateDB behaviour with a revert, commit, reopen or suicide. Additionally '
                       'graph_histories = every path of length <= %d through the Trie state graph, each concretisation' % depth)
    ctx.cov['graph_histories_all_bounded'] = hist
    ctx.cov['graph_history_depth'] = depth
    ctx.cov['content_classes_with_root'] = a['extra'].get('classes', 0)
    ctx.cov['impl_checks'] = a['checks']
    ctx.cov['reference_checks'] = b['checks']
    ctx.cov['driver_counters'] = a.get('counters', {})
    ctx.cov['exhaustive'] = True
    for t in step_traces[:1] + [t for t in step_traces if t['cfg']['kind'] == 'statedb'][:1]:
        ctx.sample({'id': t['id'], 'cfg': t['cfg'], 'actions': ['%s%s' % (s['a'], s['args']) for s in t['steps'][:12]]})
    ctx.assumptions += ['keccak256 is collision free on the inputs used (roots name contents)',
                        'reference = go-ethereum v1.8.27 from the module cache, run in a second binary built from the same driver text',
                        'abstract keys/values are concretised by a fixed table of byte keys (shared prefixes of 0..63 nibbles, prefix '
                        'extensions, the empty key) and value sizes (1..100 bytes, both sides of the 32-byte embedding limit) plus one '
                        'seeded random key set per run; other byte strings are not enumerated',
                        'database read/write errors (MissingNodeError from a damaged disk) are outside the model']
