"""C19 transaction pool: TxPool.tla (chain/app/evm ethTxPool + txSortedMap + the application nonce behind it, commit path
split at the code's real atomic steps) and Mempool.tla (gemmill/mempool) are model-checked exhaustively; every edge of the
small TxPool state graph, simulated behaviours of the larger universes (with and without eviction ticks), TLC
counterexamples of the pre-repair code variants and engine-made submissions are replayed on the REAL ethTxPool with a REAL
EVMApp behind it (real signed transactions; interleavings with the commit path forced through the OnCommit gate) and on
the real Mempool."""
import copy
import os

from .. import engine, tlc
from .c09 import cover_paths, run_parallel, TMP

SPEC = [os.path.join(engine.VERIF, 'specs', 'txpool')]
MODULE = 'MC_TxPool.tla'
DROP = ('res', 'committed', 'resub', 'cp', 'blk', 'ev')
W = 4

UG = [[1, 0, 1], [1, 1, 1], [1, 2, 1], [1, 0, 2]]
UT = [[1, 0, 1], [1, 1, 1], [1, 0, 2]]
UQ = [[1, 0, 1], [1, 1, 1], [1, 2, 1], [1, 0, 2], [1, 1, 3], [2, 0, 1], [2, 1, 1]]
UL = [[a, n, 1] for a in (1, 2) for n in range(4)] + [[a, n, 2] for a in (1, 2) for n in range(2)] + [[1, 1, 3], [2, 2, 3]]
ADM_G = [[0, 1, 0]]
ADM_L = [[0, 1, 0], [0, 2, 0], [0, 3, 0]]

CFGS = {
    't':   ('MC_TxPool_t.cfg',   {'accts': [1], 'universe': UT, 'P': 1, 'W': 1}),
    'g':   ('MC_TxPool_g.cfg',   {'accts': [1], 'universe': UG, 'P': 2, 'W': 2}),
    'g3':  ('MC_TxPool_g3.cfg',  {'accts': [1], 'universe': UG, 'P': 3, 'W': 2}),
    'm':   ('MC_TxPool_m.cfg',   {'accts': [1, 2], 'universe': [[1, 0, 1], [1, 1, 1], [1, 0, 2], [2, 0, 1], [2, 1, 1]] + ADM_G, 'P': 2, 'W': 2}),
    'q':   ('MC_TxPool_q.cfg',   {'accts': [1, 2], 'universe': UQ + ADM_G, 'P': 2, 'W': 2}),
    'qs':  ('MC_TxPool_qs.cfg',  {'accts': [1, 2], 'universe': UQ + ADM_G, 'P': 2, 'W': 2}),
    'gs':  ('MC_TxPool_gs.cfg',  {'accts': [1], 'universe': UG, 'P': 2, 'W': 2}),
    'l':   ('MC_TxPool_l.cfg',   {'accts': [1, 2], 'universe': UL + ADM_L, 'P': 3, 'W': 3}),
    'e':   ('MC_TxPool_e.cfg',   {'accts': [1, 2], 'universe': UL + ADM_L, 'P': 3, 'W': 3, 'evict': True}),
    'pre': ('MC_TxPool_pre.cfg', {'accts': [1], 'universe': UG, 'P': 2, 'W': 2}),
}
MDROP = ('res', 'committed', 'forgot', 'cache', 'pc', 'cur', 'upd')
# name: (cfg file, block_size [txLimit = block_size*2 = the spec's Limit])
MEM = {'g': ('MC_Mempool_g.cfg', 0), 'q': ('MC_Mempool_q.cfg', 1), 'l': ('MC_Mempool_l.cfg', 0), 'pre': ('MC_Mempool_pre.cfg', 0),
       'prefix_push': ('MC_Mempool_prefix_push.cfg', 0), 'prefix_atomic': ('MC_Mempool_prefix_atomic.cfg', 0),
       'prefix_latecache': ('MC_Mempool_prefix_latecache.cfg', 0)}


def nontrivial(tr):
    """contains a commit-path step, an eviction, a rejected submission or an admin op"""
    for s in tr['steps']:
        if s['a'] in ('Update', 'SwapState', 'UpdateToState', 'Evict', 'SubmitAdmin', 'SubmitBadSig', 'Flush', 'UpdCache', 'RcvPush'):
            return True
        if s['a'] in ('Submit',) and s['args'][1] != 'ok':
            return True
    return False


def from_tlc_trace(trace, tcfg, tid, drop=DROP):
    steps = []
    for label, st in trace[1:]:
        a, args = tlc.tlaval.parse_action_label(label)
        steps.append({'a': a, 'args': args, 'post': {k: v for k, v in st.items() if k not in drop}})
    return {'id': tid, 'cfg': dict(tcfg, mode='oracle'), 'init': None, 'steps': steps}


def hand(tid, cfg, steps):
    return {'id': tid, 'cfg': dict(cfg, mode='oracle'), 'init': None,
            'steps': [{'a': a, 'args': args, 'post': None} for a, args in steps]}


def run(ctx, replay=None):
    engine.build_go(ctx, ['txpool'])
    if replay is not None:
        drv = replay.get('engine') if replay.get('engine') in ('clist',) else 'txpool'
        if drv != 'txpool':
            engine.build_go(ctx, [drv])
        rep = engine.run_driver(ctx, drv, [replay['trace']], env={'TMPDIR': TMP})
        engine.collect(ctx, rep, [replay['trace']], drv)
        ctx.cov['traces_validated_against_impl'] = 1
        ctx.cov['states'] = ctx.cov['transitions'] = max(1, len(replay['trace']['steps']))
        ctx.sample({'replayed': len(replay['trace']['steps'])})
        return

    quick = ctx.tier == 'quick'
    traces = []
    # the concurrent list under the mempool list and the pool's admin/broadcast queues
    from . import clist_slice
    clist_slice.run(ctx, quick)

    # 0. behaviours with an eviction tick wait for the pool's own one-minute ticker: simulate them first and let ONE driver
    #    process replay them (concurrently) in the background while TLC does the exhaustive runs
    import threading
    cfgfile, tcfg = CFGS['e']
    num, depth = (60, 30) if quick else (160, 36)
    r, ts = tlc.simulate_traces(SPEC, MODULE, cfgfile, num, depth, ctx.seed, drop_vars=DROP, timeout=900)
    ctx.add_tlc('TxPool/sim-e', r, exhaustive=False)
    if r.violation:
        ctx.inconclusive.append('spec property %s violated on a simulated behaviour of config e' % r.violation)
    ev = []
    for k, t in enumerate(ts):
        # an eviction tick costs a minute of real time: keep behaviours that contain one, cut shortly after it
        idx = [i for i, s in enumerate(t['steps']) if s['a'] == 'Evict']
        if not idx:
            continue
        t['steps'] = t['steps'][:min(len(t['steps']), idx[0] + 6)]
        t['cfg'] = dict(tcfg, mode='model')
        t['id'] = 'sim-e-%d-%d' % (ctx.seed, k)
        ev.append(t)
    ctx.log('simulated e: %d behaviours, %d with an eviction tick' % (len(ts), len(ev)))
    box = {}

    def evrun():
        try:
            box['rep'] = engine.run_driver(ctx, 'txpool', ev, env={'TMPDIR': TMP}, timeout=1200) if ev else None
        except Exception as e:  # noqa
            box['err'] = e
    th = threading.Thread(target=evrun)
    th.start()

    # 1. TxPool exhaustive; edge cover of the smallest configuration's state graph
    for name in (['t', 'g3'] if quick else ['t', 'g', 'g3', 'm']):
        cfgfile, tcfg = CFGS[name]
        dump = name == 't'
        r = engine.tlc_check(ctx, SPEC, MODULE, cfgfile, name='TxPool/' + name, dump=dump, coverage=dump,
                             workers=1 if dump else W, timeout=500 if quick else 3000)
        if r.violation:
            ctx.inconclusive.append('spec property %s violated in config %s (specification defect, not a verdict about the code)'
                                    % (r.violation, name))
        if dump:
            vac = [a for a, (d, t) in r.coverage.items() if t == 0 and a not in ('Evict', 'SubmitAdmin', 'Next')]
            ctx.cov['action_coverage'] = {a: list(v) for a, v in r.coverage.items()}
            if vac or not r.coverage:
                ctx.inconclusive.append('vacuous actions in TxPool: %s' % vac)
        if dump and r.scratch:
            g = tlc.parse_dot(os.path.join(r.scratch, 'graph.dot'), drop_vars=DROP)
            paths, cov, want = cover_paths(g, ctx.rng, max_len=60)
            ctx.log('graph %s: %d states %d edges -> %d paths covering %d/%d edges' % (name, len(g.states), len(g.edges), len(paths), cov, want))
            ctx.cov['graph_edges_covered'] = cov
            ctx.cov['graph_edges_total'] = want
            for k, p in enumerate(paths):
                t = tlc.path_to_steps(g, p)
                t['cfg'] = dict(tcfg, mode='model')
                t['id'] = 'graph-%s-%d' % (name, k)
                traces.append(t)
        tlc.cleanup(r)

    # 2. Mempool (ReceiveTx split into its atomic steps, 2-3 concurrent submitters): exhaustive + edge cover
    for name in (['g', 'q'] if quick else ['g', 'q', 'l']):
        cfgfile, bs = MEM[name]
        dump = name == 'g'
        r = engine.tlc_check(ctx, SPEC, 'MC_Mempool.tla', cfgfile, name='Mempool/' + name, dump=dump, workers=W, timeout=500)
        if r.violation:
            ctx.inconclusive.append('spec property %s violated in Mempool/%s' % (r.violation, name))
        if dump and r.scratch:
            g = tlc.parse_dot(os.path.join(r.scratch, 'graph.dot'), drop_vars=MDROP)
            paths, cov, want = cover_paths(g, ctx.rng, max_len=80)
            ctx.log('graph mempool: %d states %d edges -> %d paths covering %d/%d edges' % (len(g.states), len(g.edges), len(paths), cov, want))
            ctx.cov['mempool_edges_covered'] = cov
            ctx.cov['mempool_edges_total'] = want
            for k, p in enumerate(paths):
                t = tlc.path_to_steps(g, p)
                t['cfg'] = {'kind': 'mempool', 'block_size': bs, 'mode': 'model'}
                t['id'] = 'graph-mempool-%d' % k
                traces.append(t)
        tlc.cleanup(r)
    cfgfile, bs = MEM['l']
    r, ts = tlc.simulate_traces(SPEC, 'MC_Mempool.tla', cfgfile, 40 if quick else 400, 30, ctx.seed, drop_vars=MDROP)
    ctx.add_tlc('Mempool/sim-l', r, exhaustive=False)
    if r.violation:
        ctx.inconclusive.append('spec property %s violated on a simulated behaviour of Mempool/l' % r.violation)
    for k, t in enumerate(ts):
        t['cfg'] = {'kind': 'mempool', 'block_size': bs, 'mode': 'model'}
        t['id'] = 'sim-mempool-%d-%d' % (ctx.seed, k)
        traces.append(t)

    # 3. pre-repair variants of the code: TLC must find the violation; counterexamples replayed (oracles only)
    wit = {}
    r = tlc.run(SPEC, MODULE, CFGS['pre'][0], workers=1, timeout=300)
    wit['txpool_pre'] = r.violation
    if r.violation and r.trace:
        traces.append(from_tlc_trace(r.trace, CFGS['pre'][1], 'witness-txpool-pre'))
    else:
        ctx.inconclusive.append('spec sensitivity: TxPool pre-repair configuration produced no counterexample')
    for name in ('pre', 'prefix_push', 'prefix_atomic', 'prefix_latecache'):
        r = tlc.run(SPEC, 'MC_Mempool.tla', MEM[name][0], workers=1, timeout=300)
        wit['mempool_' + name] = r.violation
        if r.violation and r.trace:
            t = from_tlc_trace(r.trace, {'kind': 'mempool', 'block_size': MEM[name][1], 'split': name == 'prefix_atomic'},
                               'witness-mempool-' + name, drop=('res',))
            t['steps'].append({'a': 'Reap', 'args': [-1], 'post': None})
            traces.append(t)
        else:
            ctx.inconclusive.append('spec sensitivity: Mempool %s configuration produced no counterexample' % name)
    # the racy schedules by hand (oracles only): two and three goroutines submit the SAME transaction and all pass the
    # Exists check before any of them pushes; a submitter parked between cache.Push and the list append while a block
    # containing its transaction is committed / the pool is flushed
    mp = {'kind': 'mempool', 'block_size': 2}
    traces.append(hand('mempool-race-2', mp, [('RcvCheck', ['p1', 'a', 'pass']), ('RcvCheck', ['p2', 'a', 'pass']), ('RcvPush', ['p1', 'ok']),
                                              ('RcvPush', ['p2', 'exist']), ('Reap', [-1]), ('RcvCheck', ['p1', 'a', 'exist'])]))
    traces.append(hand('mempool-race-3', mp, [('RcvCheck', ['p1', 'a', 'pass']), ('RcvCheck', ['p2', 'b', 'pass']), ('RcvCheck', ['p3', 'a', 'pass']),
                                              ('RcvCheck', ['p4', 'a', 'pass']), ('RcvPush', ['p3', 'ok']), ('RcvPush', ['p2', 'ok']),
                                              ('RcvPush', ['p1', 'exist']), ('RcvPush', ['p4', 'exist']), ('Reap', [-1])]))
    # the late copy of a transaction of the block being committed: parked after its seen-check, it asks for the pool lock
    # while Update holds it (steered through the registered filter alone, no hook); T last of 50000 block transactions
    traces.append(hand('mempool-late-copy-during-update', mp, [('LateCopyRace', [50000, 8])]))
    traces.append(hand('mempool-push-update-append', dict(mp, split=True),
                       [('RcvCheck', ['p1', 'a', 'pass']), ('RcvPush', ['p1', 'ok']), ('UpdCache', [['a']]), ('UpdRefresh', []),
                        ('RcvAppend', ['p1']), ('Reap', [-1])]))
    traces.append(hand('mempool-push-flush-append', dict(mp, split=True),
                       [('RcvCheck', ['p1', 'a', 'pass']), ('RcvPush', ['p1', 'ok']), ('Flush', []), ('RcvAppend', ['p1']),
                        ('RcvCheck', ['p2', 'a', 'pass']), ('RcvPush', ['p2', 'ok']), ('RcvAppend', ['p2']), ('Reap', [-1])]))
    ctx.cov['spec_sensitivity'] = wit

    # 4. simulated behaviours of the large universe (two accounts, admin ops, limits 3/3); with eviction ticks
    sims = [('l', 80, 40), ('qs', 40, 30)] if quick else [('l', 700, 50), ('qs', 300, 40), ('gs', 150, 30)]
    for name, num, depth in sims:
        cfgfile, tcfg = CFGS[name]
        r, ts = tlc.simulate_traces(SPEC, MODULE, cfgfile, num, depth, ctx.seed, drop_vars=DROP, timeout=900)
        ctx.add_tlc('TxPool/sim-' + name, r, exhaustive=False)
        if r.violation:
            # a property of the SPEC fails on a simulated behaviour: not a verdict about the code by itself; the
            # behaviour is replayed on the real pool, whose model-independent oracles decide
            ctx.inconclusive.append('spec property %s violated on a simulated behaviour of config %s' % (r.violation, name))
            if r.trace:
                traces.append(from_tlc_trace(r.trace, tcfg, 'sim-counterexample-%s-%d' % (name, ctx.seed)))
        for k, t in enumerate(ts):
            t['cfg'] = dict(tcfg, mode='model')
            t['id'] = 'sim-%s-%d-%d' % (name, ctx.seed, k)
            traces.append(t)
        ctx.log('simulated %s: %d behaviours' % (name, len(ts)))

    # 5. engine-made submissions outside the specification's alphabet: invalid signatures; the known limitation
    cfg2 = {'accts': [1, 2], 'universe': UL + ADM_L, 'P': 3, 'W': 3}
    traces.append(hand('badsig', cfg2, [('Submit', [[1, 0, 1], 'ok']), ('SubmitBadSig', [[1, 1, 1], 0]), ('SubmitBadSig', [[2, 0, 1], 1]),
                                        ('SubmitBadSig', [[2, 0, 1], 2]), ('SubmitBadSig', [[1, 0, 3], 3]), ('Reap', [100]),
                                        ('Update', [[[1, 0, 1]]]), ('SwapState', []), ('SubmitBadSig', [[1, 1, 1], 0]),
                                        ('UpdateToState', [[1, 2], [1, 2]]), ('Reap', [100])]))
    traces.append(hand('failing-tx-stays', cfg2, [('Submit', [[1, 0, 2], 'ok']), ('Submit', [[1, 1, 1], 'ok']), ('Reap', [100]),
                                                  ('Update', [[[1, 0, 2]]]), ('SwapState', []), ('UpdateToState', [[1, 2], [1, 2]]),
                                                  ('Reap', [100]), ('Submit', [[1, 0, 1], 'ok']), ('Reap', [100])]))

    traces.append(hand('middle-gap', cfg2, [('Submit', [[2, 1, 1], 'ok']), ('Submit', [[2, 2, 3], 'ok']), ('Submit', [[2, 0, 1], 'ok']),
                                            ('Reap', [100]), ('Update', [[[2, 1, 1]]]), ('SwapState', []),
                                            ('UpdateToState', [[1, 2], [1, 2]]), ('Reap', [100]), ('Submit', [[2, 1, 1], 'ok']), ('Reap', [100])]))
    # admin requests go through the commit path in block.ExTxs (pbft createProposalBlock): committed ones must leave the pool
    traces.append(hand('admin-committed', cfg2, [('SubmitAdmin', [[0, 1, 0], 'ok']), ('Submit', [[1, 0, 1], 'ok']), ('SubmitAdmin', [[0, 2, 0], 'ok']),
                                                 ('Reap', [100]), ('Update', [[[0, 1, 0], [1, 0, 1]]]), ('SwapState', []),
                                                 ('UpdateToState', [[1, 2], [1, 2]]), ('Reap', [100]),
                                                 ('Update', [[[0, 2, 0]]]), ('SubmitAdmin', [[0, 3, 0], 'ok']),
                                                 ('SwapState', []), ('UpdateToState', [[1, 2], [1, 2]]), ('Reap', [100]),
                                                 ('Update', [[[0, 3, 0]]]), ('SwapState', []), ('UpdateToState', [[1, 2], [1, 2]]), ('Reap', [100])]))
    traces.append(hand('tryreplace-evicts', cfg2, [('Submit', [[1, 1, 1], 'ok']), ('Submit', [[1, 2, 1], 'ok']), ('Submit', [[1, 3, 1], 'ok']),
                                                   ('Submit', [[1, 0, 1], 'ok']), ('Submit', [[1, 3, 1], 'ok']), ('Reap', [100])]))

    # binding self-test
    probe = None
    for t in traces:
        if t['cfg'].get('mode') != 'model' or t['cfg'].get('kind') == 'mempool' or t['cfg'].get('evict'):
            continue
        for si, s in enumerate(t['steps']):
            if s['a'] == 'Submit' and s['args'][1] == 'ok' and s['post']['pend']:
                probe = copy.deepcopy(t)
                probe['steps'] = probe['steps'][:si + 1]
                probe['id'] = 'selftest'
                probe['steps'][si]['post']['pend'] = []
                break
        if probe:
            break
    if probe:
        rep = engine.run_driver(ctx, 'txpool', [probe], env={'TMPDIR': TMP})
        ctx.cov['binding_selftest'] = 'rejected' if rep.get('failures') else 'ACCEPTED'
        if not rep.get('failures'):
            ctx.inconclusive.append('binding self-test: corrupted trace was accepted by the driver')
    else:
        ctx.inconclusive.append('binding self-test: no probe trace found')

    rest = traces
    traces = rest + ev
    rep = run_parallel(ctx, 'txpool', rest, n=W - 1, env={'TMPDIR': TMP})
    engine.collect(ctx, rep, rest, 'txpool')
    th.join()
    if 'err' in box:
        raise box['err']
    total = dict(rep)
    if box.get('rep'):
        engine.collect(ctx, box['rep'], ev, 'txpool')
        for k in ('traces', 'steps', 'checks'):
            total[k] += box['rep'].get(k, 0)
        for k, v in (box['rep'].get('counters') or {}).items():
            total['counters'][k] = total['counters'].get(k, 0) + v
    ctx.cov['traces_validated_against_impl'] = total['traces']
    ctx.cov['evaluations'] = total['steps']
    ctx.cov['distinct_nontrivial'] = sum(1 for t in traces if nontrivial(t))
    ctx.cov['rule'] = ('behaviours = edge-cover paths of the dumped TxPool and Mempool state graphs + tlc -simulate behaviours (two accounts, '
                       'admin ops, limits 3/3, with and without eviction ticks) + TLC counterexamples of the pre-repair variants + engine-made '
                       'submissions; non-trivial = contains a commit-path step, an eviction, a flush, an admin op or a rejected submission')
    ctx.cov['impl_checks'] = total['checks']
    ctx.cov['driver_counters'] = total.get('counters', {})
    ctx.cov['exhaustive'] = True
    for t in traces[:2]:
        ctx.sample({'id': t['id'], 'cfg': {k: v for k, v in t['cfg'].items() if k != 'universe'},
                    'actions': ['%s%s' % (s['a'], s['args']) for s in t['steps'][:12]]})
    ctx.assumptions += [
        'Reap is only called by the consensus goroutine, hence never between the three commit-path steps; submitters and the evictor interleave freely',
        'pool limits 1-3 (hook VerifPoolSetLimits; production: block_size*10); eviction with waitingLifeTime 0, i.e. every idle account is expired',
        'a transaction "fails at execution" = gas price 1 from an unfunded account',
        'Go map iteration order over accounts (promotion/demotion at the limits, Reap with a cap) is not controllable: a replayed behaviour that the '
        'real pool leaves legally at such a step is cut there (counter legal_order_divergence); the model-independent oracles still apply',
        'Mempool: the dedup cache holds 100000 entries (constant); its overflow is not modelled',
    ]
