"""C09 transaction execution total, atomic, replay-protected: TxExec.tla (over TxSem.tla) model-checked exhaustively;
every edge of the small state graph, simulated behaviours of the large alphabets, TLC witnesses of the pre-repair
code variants and engine-made blocks of byte-level mutants are replayed through the REAL EVMApp
(OnExecute / TxPool.Update / OnCommit on real LevelDBs) with real signed transactions."""
import copy
import os

from .. import engine, tlc

SPEC = [os.path.join(engine.VERIF, 'specs', 'txexec')]
DROP = ('res', 'applied', 'twice')
MODULE = 'MC_TxExec.tla'
W = 4
TMP = '/dev/shm' if os.path.isdir('/dev/shm') and os.access('/dev/shm', os.W_OK) else '/tmp'

CFGS = {
    'g':   ('MC_TxExec_g.cfg',   {'accts': [1], 'keys': ['k1'], 'maxn': 1}),
    'q':   ('MC_TxExec_q.cfg',   {'accts': [1], 'keys': ['k1'], 'maxn': 1}),
    'm':   ('MC_TxExec_m.cfg',   {'accts': [1, 2], 'keys': ['k1'], 'maxn': 1}),
    'l':   ('MC_TxExec_l.cfg',   {'accts': [1, 2], 'keys': ['k1'], 'maxn': 2}),
    'all': ('MC_TxExec_all.cfg', {'accts': [1, 2], 'keys': ['k1', 'k2'], 'maxn': 2}),
}
# the code before each repair, as a configuration of the same specification: TLC must find the property violated
WITNESS = {
    'prefix_kv':    ('MC_TxExec_prefix_kv.cfg',    {'accts': [1], 'keys': ['k1'], 'maxn': 1}),
    'prefix_empty': ('MC_TxExec_prefix_empty.cfg', {'accts': [1], 'keys': ['k1'], 'maxn': 1}),
    'prefix_admin': ('MC_TxExec_prefix_admin.cfg', {'accts': [1], 'keys': ['k1'], 'maxn': 1}),
    'prefix_create': ('MC_TxExec_prefix_create.cfg', {'accts': [1], 'keys': ['k1'], 'maxn': 1}),
}


def cover_paths(g, rng, max_len=40):
    """Edge cover with long walks: from an initial state always take an uncovered edge if there is one, otherwise
    the edge leading (shortest way) towards the nearest state that still has an uncovered out-edge."""
    from collections import deque
    reach = set()
    dq = deque(g.init)
    reach.update(g.init)
    while dq:
        s = dq.popleft()
        for k in g.out.get(s, []):
            t = g.edges[k][3]
            if t not in reach:
                reach.add(t)
                dq.append(t)
    want = set(k for k, e in enumerate(g.edges) if e[0] in reach)
    covered = set()
    paths = []

    def next_towards(s):
        # BFS over edges to the nearest state having an uncovered out-edge; returns first edge of that route
        seen = {s}
        q = deque()
        for k in g.out.get(s, []):
            q.append((g.edges[k][3], k))
        while q:
            t, first = q.popleft()
            if t in seen:
                continue
            seen.add(t)
            if any(k not in covered for k in g.out.get(t, [])):
                return first
            for k in g.out.get(t, []):
                q.append((g.edges[k][3], first))
        return None

    while len(covered) < len(want):
        cur = rng.choice(g.init)
        path = []
        progress = False
        while len(path) < max_len:
            cand = [k for k in g.out.get(cur, []) if k not in covered]
            if cand:
                k = rng.choice(cand)
                progress = True
            else:
                k = next_towards(cur)
                if k is None:
                    break
            path.append(k)
            covered.add(k)
            cur = g.edges[k][3]
        if not progress:
            break
        paths.append(path)
    return paths, len(covered & want), len(want)


def run_parallel(ctx, name, traces, n=4, timeout=3000, env=None):
    """Run the driver on n chunks of the traces concurrently and merge the reports."""
    import threading
    if len(traces) < 2 * n:
        return engine.run_driver(ctx, name, traces, timeout=timeout, env=env)
    chunks = [list(range(i, len(traces), n)) for i in range(n)]
    out = [None] * n
    errs = []

    def work(i):
        try:
            out[i] = engine.run_driver(ctx, name, [traces[j] for j in chunks[i]], timeout=timeout, env=env)
        except Exception as e:  # noqa
            errs.append(e)
    th = [threading.Thread(target=work, args=(i,)) for i in range(n)]
    for t in th:
        t.start()
    for t in th:
        t.join()
    if errs:
        raise errs[0]
    rep = {'traces': 0, 'steps': 0, 'checks': 0, 'failures': [], 'counters': {}, 'extra': {}}
    for i, r in enumerate(out):
        for k in ('traces', 'steps', 'checks'):
            rep[k] += r.get(k, 0)
        for f in (r.get('failures') or []):
            f = dict(f)
            f['trace'] = chunks[i][f.get('trace', 0)]
            rep['failures'].append(f)
        for k, v in (r.get('counters') or {}).items():
            rep['counters'][k] = rep['counters'].get(k, 0) + v
        for k, v in (r.get('extra') or {}).items():
            if isinstance(v, list):
                rep['extra'][k] = sorted(set(rep['extra'].get(k, [])) | set(v))
            elif isinstance(v, (int, float)):
                rep['extra'][k] = rep['extra'].get(k, 0) + v
            else:
                rep['extra'][k] = v
    return rep


def nontrivial(tr):
    """contains an invalid transaction, a repeated transaction, or a non-transfer class"""
    seen = set()
    for s in tr['steps']:
        if s['a'] == 'Mutants':
            return True
        if s['a'] != 'ExecTx':
            continue
        t = s['args'][0]
        key = (t['c'], t['a'], t['n'], t['k'], t['v'])
        if s['args'][1] != 'valid' or key in seen or t['c'] != 'xfer':
            return True
        seen.add(key)
    return False


def trace_from_tlc_trace(trace, tcfg, tid):
    steps = []
    for label, st in trace[1:]:
        a, args = tlc.tlaval.parse_action_label(label)
        steps.append({'a': a, 'args': args, 'post': {k: v for k, v in st.items() if k not in DROP}})
    return {'id': tid, 'cfg': dict(tcfg, mode='oracle'), 'init': None, 'steps': steps}


def run(ctx, replay=None):
    engine.build_go(ctx, ['txexec'])
    if replay is not None:
        rep = engine.run_driver(ctx, 'txexec', [replay['trace']])
        engine.collect(ctx, rep, [replay['trace']], 'txexec')
        ctx.cov['traces_validated_against_impl'] = 1
        ctx.cov['states'] = ctx.cov['transitions'] = max(1, len(replay['trace']['steps']))
        ctx.sample({'replayed': len(replay['trace']['steps'])})
        return

    quick = ctx.tier == 'quick'
    traces = []

    # 1. exhaustive model checking; state-graph edge cover of the small configuration
    for name in (['g', 'q', 'm'] if quick else ['g', 'q', 'm', 'l']):
        cfgfile, tcfg = CFGS[name]
        dump = name == 'g'
        r = engine.tlc_check(ctx, SPEC, MODULE, cfgfile, name='TxExec/' + name, dump=dump, coverage=dump,
                             workers=1 if dump else W, timeout=300 if quick else 1500)
        if dump:
            # vacuity: every action of the specification fires
            vac = [a for a, (d, t) in r.coverage.items() if t == 0]
            ctx.cov['action_coverage'] = {a: list(v) for a, v in r.coverage.items()}
            if vac or not r.coverage:
                ctx.inconclusive.append('vacuous actions in TxExec: %s' % vac)
        if r.violation:
            ctx.inconclusive.append('spec property %s violated in config %s (specification defect, not a verdict about the code)'
                                    % (r.violation, name))
        if dump and r.scratch:
            g = tlc.parse_dot(os.path.join(r.scratch, 'graph.dot'), drop_vars=DROP)
            paths, cov, want = cover_paths(g, ctx.rng, max_len=14)
            ctx.log('graph %s: %d states %d edges -> %d paths covering %d/%d edges' % (name, len(g.states), len(g.edges), len(paths), cov, want))
            ctx.cov['graph_edges_covered'] = ctx.cov.get('graph_edges_covered', 0) + cov
            ctx.cov['graph_edges_total'] = ctx.cov.get('graph_edges_total', 0) + want
            for k, p in enumerate(paths):
                t = tlc.path_to_steps(g, p)
                t['cfg'] = dict(tcfg, mode='model')
                t['id'] = 'graph-%s-%d' % (name, k)
                traces.append(t)
        tlc.cleanup(r)

    # 3. the code before each repair is a configuration of the same spec: TLC must find the violation, and the
    #    counterexample is replayed on the real code (model-independent oracles only)
    wit = {}
    for name, (cfgfile, tcfg) in WITNESS.items():
        r = tlc.run(SPEC, MODULE, cfgfile, workers=1, timeout=300)
        wit[name] = r.violation
        if not r.violation or not r.trace:
            ctx.inconclusive.append('spec sensitivity: %s did not produce a counterexample' % name)
            continue
        t = trace_from_tlc_trace(r.trace, tcfg, 'witness-' + name)
        # close the open block so that the real code commits it
        if t['steps'] and t['steps'][-1]['a'] == 'ExecTx':
            t['steps'].append({'a': 'Commit', 'args': [], 'post': None})
        traces.append(t)
    ctx.cov['spec_sensitivity'] = wit

    # 4. simulated behaviours of the larger alphabets
    sims = [('all', 60, 16), ('m', 40, 14)] if quick else [('all', 600, 22), ('m', 300, 18), ('q', 100, 12)]
    for name, num, depth in sims:
        cfgfile, tcfg = CFGS[name]
        r, ts = tlc.simulate_traces(SPEC, MODULE, cfgfile, num, depth, ctx.seed, drop_vars=DROP)
        ctx.add_tlc('TxExec/sim-' + name, r, exhaustive=False)
        if r.violation:
            ctx.inconclusive.append('spec property %s violated on a simulated behaviour of config %s' % (r.violation, name))
            if r.trace:
                traces.append(trace_from_tlc_trace(r.trace, tcfg, 'sim-counterexample-%s-%d' % (name, ctx.seed)))
        for k, t in enumerate(ts):
            t['cfg'] = dict(tcfg, mode='model')
            t['id'] = 'sim-%s-%d-%d' % (name, ctx.seed, k)
            traces.append(t)
        ctx.log('simulated %s: %d behaviours' % (name, len(ts)))

    # 5. forced schedule of the parallel signature verifier (executor reads status before the error is stored)
    gate = {'id': 'gate-badsig', 'cfg': {'accts': [1, 2], 'keys': ['k1'], 'maxn': 2, 'mode': 'oracle', 'gate': True, 'routines': 2},
            'init': None, 'steps': []}
    bad = {'c': 'badsig', 'a': 0, 'n': 0, 'k': '-', 'v': '-'}
    x0 = {'c': 'xfer', 'a': 1, 'n': 0, 'k': '-', 'v': '-'}
    x1 = {'c': 'xfer', 'a': 1, 'n': 1, 'k': '-', 'v': '-'}
    for blk in ([bad, x0], [x1, bad, bad]):
        gate['steps'].append({'a': 'Begin', 'args': [], 'post': None})
        for t in blk:
            gate['steps'].append({'a': 'ExecTx', 'args': [t, 'invalid' if t['c'] == 'badsig' else 'valid'], 'post': None})
        gate['steps'].append({'a': 'Commit', 'args': [], 'post': None})
    traces.append(gate)
    g1 = copy.deepcopy(gate)
    g1['id'] = 'gate-badsig-1'
    g1['cfg']['routines'] = 1
    traces.append(g1)

    # 5b. classes outside the specification's alphabet: a contract that calls the 0xfe precompile with short / overlong
    #     input, a contract that loops until the EVM gas budget is exhausted (thorough only: ~1 s each)
    def tx(c, a, n):
        return {'c': c, 'a': a, 'n': n, 'k': '-', 'v': '-'}
    ex = {'id': 'exotic', 'cfg': {'accts': [1, 2], 'keys': ['k1'], 'maxn': 2, 'mode': 'oracle'}, 'init': None, 'steps': []}
    blocks = [[tx('create', 1, 0), tx('admcall', 2, 0), tx('admcall', 2, 1)],
              [tx('admcall', 1, 1), tx('admcall', 2, 2), tx('oog', 1, 2), tx('revert', 2, 3), tx('pre', 1, 3), tx('admshort', 2, 4), tx('admok', 1, 4)]]
    if not quick:
        blocks.append([tx('loop', 1, 5), tx('call', 2, 5), tx('loop', 1, 5)])
    for blk in blocks:
        ex['steps'].append({'a': 'Begin', 'args': [], 'post': None})
        for t in blk:
            ex['steps'].append({'a': 'ExecTx', 'args': [t, 'valid'], 'post': None})
        ex['steps'].append({'a': 'Commit', 'args': [], 'post': None})
    traces.append(ex)

    # 5c. execution that fails inside the EVM must still consume the nonce: every failing-init-code variant, a reverting
    #     call and an out-of-budget call, each followed by the SAME signed bytes in the same block and in later blocks
    for v in range(5):
        def cf(n, r):
            return {'a': 'ExecTx', 'args': [tx('createfail', 1, n), r, v], 'post': None}
        t = {'id': 'failed-create-replay-%d' % v, 'cfg': {'accts': [1, 2], 'keys': ['k1'], 'maxn': 2, 'mode': 'model', 'routines': 1 + v},
             'init': None, 'steps': []}
        for blk in ([cf(0, 'valid'), cf(0, 'invalid')],
                    [cf(0, 'invalid'), cf(1, 'valid'), cf(1, 'invalid')],
                    [cf(1, 'invalid'), cf(0, 'invalid'), {'a': 'ExecTx', 'args': [tx('xfer', 1, 2), 'valid'], 'post': None}]):
            t['steps'].append({'a': 'Begin', 'args': [], 'post': None})
            t['steps'] += blk
            t['steps'].append({'a': 'Commit', 'args': [], 'post': None})
        traces.append(t)
    # 5d. gas handed back beyond what was bought (2300 stipend of every value-bearing call): creation branch, every
    #     init-code variant, and the message-call branch through the deployed contract
    t = {'id': 'stipend-create-and-call', 'cfg': {'accts': [1, 2], 'keys': ['k1'], 'maxn': 2, 'mode': 'model'}, 'init': None, 'steps': []}
    for blk in ([(tx('create', 1, 0), 'valid', 0), (tx('createcalls', 2, 0), 'valid', 0), (tx('createcalls', 2, 0), 'invalid', 0)],
                [(tx('createcalls', 2, 1), 'valid', 1), (tx('valuecalls', 1, 1), 'valid', 0), (tx('createcalls', 1, 2), 'valid', 2)],
                [(tx('createcalls', 2, 2), 'valid', 3), (tx('valuecalls', 2, 3), 'valid', 0), (tx('xfer', 1, 3), 'valid', 0)]):
        t['steps'].append({'a': 'Begin', 'args': [], 'post': None})
        for a, r, v in blk:
            t['steps'].append({'a': 'ExecTx', 'args': [a, r, v], 'post': None})
        t['steps'].append({'a': 'Commit', 'args': [], 'post': None})
    traces.append(t)
    t = {'id': 'failed-call-replay', 'cfg': {'accts': [1, 2], 'keys': ['k1'], 'maxn': 2, 'mode': 'model'}, 'init': None, 'steps': []}
    for blk in ([(tx('create', 1, 0), 'valid'), (tx('revert', 2, 0), 'valid'), (tx('revert', 2, 0), 'invalid')],
                [(tx('revert', 2, 0), 'invalid'), (tx('oog', 2, 1), 'valid'), (tx('oog', 2, 1), 'invalid'), (tx('admshort', 1, 1), 'valid')],
                [(tx('oog', 2, 1), 'invalid'), (tx('admshort', 1, 1), 'invalid'), (tx('xfer', 2, 2), 'valid')]):
        t['steps'].append({'a': 'Begin', 'args': [], 'post': None})
        for a, r in blk:
            t['steps'].append({'a': 'ExecTx', 'args': [a, r], 'post': None})
        t['steps'].append({'a': 'Commit', 'args': [], 'post': None})
    traces.append(t)

    # 5f. a transaction that fails AFTER its state transition has begun (value transfer without funds: the nonce is bumped,
    #     then CanTransfer fails and the whole tx is rolled back) right behind state-changing valid transactions of the
    #     SAME sender in the same block: the rollback must give back exactly its own changes - the earlier transactions'
    #     effects (kv nonce bump, which lives only in the journal until Commit; deployments; counter) must reach the
    #     committed state, the twin chain without the invalid tx must have the same AppHash, and nothing replays
    def kvt(a, n, v):
        return {'c': 'kv', 'a': a, 'n': n, 'k': 'k1', 'v': v}
    t = {'id': 'rollback-behind-valid', 'cfg': {'accts': [1, 2], 'keys': ['k1'], 'maxn': 2, 'mode': 'model'}, 'init': None, 'steps': []}
    for blk in ([(kvt(1, 0, 'a'), 'valid'), (tx('value', 1, 1), 'invalid'), (tx('xfer', 2, 0), 'valid'), (tx('value', 2, 1), 'invalid')],
                [(kvt(1, 0, 'a'), 'invalid'), (tx('create', 1, 1), 'valid'), (tx('value', 1, 2), 'invalid'), (tx('xfer', 2, 0), 'invalid'),
                 (tx('call', 2, 1), 'valid'), (tx('value', 2, 2), 'invalid'), (kvt(2, 2, 'b'), 'valid'), (tx('value', 2, 3), 'invalid')],
                [(tx('create', 1, 1), 'invalid'), (kvt(2, 2, 'b'), 'invalid'), (tx('call', 1, 2), 'valid'), (tx('value', 1, 3), 'invalid'),
                 (tx('revert', 2, 3), 'valid'), (tx('value', 2, 4), 'invalid')],
                [(tx('xfer', 1, 3), 'valid'), (tx('xfer', 2, 4), 'valid')]):
        t['steps'].append({'a': 'Begin', 'args': [], 'post': None})
        for a, r in blk:
            t['steps'].append({'a': 'ExecTx', 'args': [a, r], 'post': None})
        t['steps'].append({'a': 'Commit', 'args': [], 'post': None})
    traces.append(t)

    # 5e. totality under a flood of bad signatures: at least as many unverifiable transactions as signature-checking
    #     goroutines, followed by further transactions - for 1, 2, 8 goroutines and the package default (NumCPU <= 16)
    for rt, nbad in ((1, 2), (2, 3), (8, 9), (-1, 17)):
        t = {'id': 'badsig-flood-%s' % ('default' if rt < 0 else rt),
             'cfg': {'accts': [1, 2], 'keys': ['k1'], 'maxn': 2, 'mode': 'model', 'routines': rt}, 'init': None, 'steps': []}
        t['steps'].append({'a': 'Begin', 'args': [], 'post': None})
        for i in range(nbad):
            t['steps'].append({'a': 'ExecTx', 'args': [{'c': 'badsig', 'a': 0, 'n': 0, 'k': '-', 'v': '-'}, 'invalid', i], 'post': None})
        t['steps'].append({'a': 'ExecTx', 'args': [tx('xfer', 1, 0), 'valid'], 'post': None})
        t['steps'].append({'a': 'ExecTx', 'args': [tx('kv', 2, 0) | {'k': 'k1', 'v': 'a'}, 'valid'], 'post': None})
        t['steps'].append({'a': 'Commit', 'args': [], 'post': None})
        t['steps'].append({'a': 'Begin', 'args': [], 'post': None})
        t['steps'].append({'a': 'ExecTx', 'args': [tx('xfer', 1, 1), 'valid'], 'post': None})
        t['steps'].append({'a': 'Commit', 'args': [], 'post': None})
        traces.append(t)

    # 6. byte-level mutants (bounded): model-independent oracles only
    nm = 6 if quick else 60
    for k in range(nm):
        t = {'id': 'mutants-%d-%d' % (ctx.seed, k), 'cfg': {'accts': [1, 2], 'keys': ['k1'], 'maxn': 2, 'mode': 'oracle'}, 'init': None,
             'steps': []}
        t['steps'].append({'a': 'Begin', 'args': [], 'post': None})
        t['steps'].append({'a': 'ExecTx', 'args': [{'c': 'create', 'a': 1, 'n': 0, 'k': '-', 'v': '-'}, 'valid'], 'post': None})
        t['steps'].append({'a': 'Commit', 'args': [], 'post': None})
        for b in range(3):
            t['steps'].append({'a': 'Mutants', 'args': [ctx.seed * 100003 + k * 101 + b, 6], 'post': None})
        traces.append(t)

    # binding self-test: a corrupted expectation must be rejected
    probe = None
    for t in traces:
        if t['cfg'].get('mode') != 'model':
            continue
        for si, s in enumerate(t['steps']):
            if s['a'] == 'Commit' and si > 0 and any(x['a'] == 'ExecTx' and x['args'][1] == 'valid' for x in t['steps'][:si]):
                probe = copy.deepcopy(t)
                probe['steps'] = probe['steps'][:si + 1]
                nn = probe['steps'][si]['post']['base']['nonce']
                nn[0] = nn[0] + 1
                break
        if probe:
            break
    if probe:
        rep = engine.run_driver(ctx, 'txexec', [probe])
        ctx.cov['binding_selftest'] = 'rejected' if rep.get('failures') else 'ACCEPTED'
        if not rep.get('failures'):
            ctx.inconclusive.append('binding self-test: corrupted trace was accepted by the driver')
    else:
        ctx.inconclusive.append('binding self-test: no probe trace found')

    rep = run_parallel(ctx, 'txexec', traces, n=W, env={'TMPDIR': TMP})
    engine.collect(ctx, rep, traces, 'txexec')
    ctx.cov['traces_validated_against_impl'] = rep['traces']
    ctx.cov['evaluations'] = rep['steps']
    ctx.cov['distinct_nontrivial'] = sum(1 for t in traces if nontrivial(t))
    ctx.cov['rule'] = ('behaviours = edge-cover paths of the dumped state graph + tlc -simulate behaviours + TLC counterexamples of the '
                       'pre-repair code variants + forced verifier schedules + blocks of byte-level mutants; non-trivial = contains an '
                       'invalid transaction, a repeated transaction or a class other than a plain transfer')
    ctx.cov['impl_checks'] = rep['checks']
    ctx.cov['driver_counters'] = rep.get('counters', {})
    ctx.cov['class_results_seen'] = rep.get('extra', {}).get('class_results')
    ctx.cov['exhaustive'] = True
    for t in traces[:2]:
        ctx.sample({'id': t['id'], 'cfg': t['cfg'],
                    'actions': ['%s%s' % (s['a'], [a if not isinstance(a, dict) else '%s(a%s,n%s)' % (a['c'], a['a'], a['n']) for a in s['args']])
                                for s in t['steps'][:10]]})
    ctx.assumptions += [
        'secp256k1 signatures are unforgeable; transaction classes are concretised by fixed byte patterns (several variants per class)',
        'every balance is 0 (the genesis funds nobody and gas price 0 is the only affordable price)',
        'the 0xfe precompile is driven with a stub callback in place of Angine.ExecAdminTx (the plugin itself is C14)',
        '"every byte string": classes of the specification plus bounded seeded byte-level mutations of valid transactions',
    ]
