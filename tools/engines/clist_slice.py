"""C19 slice: CList.tla (the concurrent list under the mempool list and the pool's admin/broadcast queues) model-checked in
the three ways callers treat a removed element (no detach / DetachPrev / both); every edge of each state graph replayed on
the real go-clist."""
import copy
import os

from .. import engine, tlc

SPEC = os.path.join(engine.VERIF, 'specs', 'clist')
DROP = ('res', 'steps', 'visited', 'cut')


def run(ctx, quick):
    engine.build_go(ctx, ['clist'])
    traces = []
    for det in ('none', 'prev', 'both'):
        r = engine.tlc_check(ctx, SPEC, 'MC_CList.tla', 'MC_CList_%s.cfg' % det, name='CList/' + det, dump=True, workers=4, timeout=600)
        if r.violation:
            ctx.inconclusive.append('CList.tla: %s violated with Detach=%s (specification defect unless the replay reproduces it)' % (r.violation, det))
        if r.scratch and not r.violation:
            g = tlc.parse_dot(os.path.join(r.scratch, 'graph.dot'), drop_vars=DROP)
            paths, cov, want = tlc.edge_cover_paths(g, ctx.rng, max_len=12)
            ctx.cov['clist_edges_covered'] = ctx.cov.get('clist_edges_covered', 0) + cov
            ctx.cov['clist_edges_total'] = ctx.cov.get('clist_edges_total', 0) + want
            for k, p in enumerate(paths):
                t = tlc.path_to_steps(g, p)
                t['cfg'] = {'Detach': det}
                t['id'] = 'clist-%s-%d' % (det, k)
                traces.append(t)
        tlc.cleanup(r)
    probe = None
    for t in traces:
        for si, s in enumerate(t['steps']):
            if s['a'] == 'Remove':
                probe = copy.deepcopy(t)
                probe['steps'] = probe['steps'][:si + 1]
                probe['steps'][si]['post']['removed'] = []
                break
        if probe:
            break
    if probe:
        rep = engine.run_driver(ctx, 'clist', [probe])
        ctx.cov['clist_binding_selftest'] = 'rejected' if rep.get('failures') else 'ACCEPTED'
        if not rep.get('failures'):
            ctx.inconclusive.append('clist binding self-test: corrupted trace accepted')
    rep = engine.run_driver(ctx, 'clist', traces, timeout=900)
    engine.collect(ctx, rep, traces, 'clist')
    ctx.cov['clist_traces'] = rep['traces']
    ctx.cov['clist_steps'] = rep['steps']
    ctx.cov['clist_checks'] = rep['checks']
