"""C01 agreement: Tendermint.tla exhaustively model-checked (Byzantine budget 0/1, unequal powers), plus
witness and simulated behaviours (unbounded Byzantine sends, several heights, crashes) replayed on real
pbft.ConsensusState nodes with every node compared with the spec state after every action."""
import copy

from .. import engine
from . import tm_common as tm


def configs(tier):
    quick = tier == 'quick'
    ex = [tm.Cfg('n4-b0-r1', [1, 1, 1, 1], [4], max_round=1, budget=0)]
    if not quick:
        ex += [tm.Cfg('n4-b1-r1', [1, 1, 1, 1], [4], max_round=1, budget=1),
               tm.Cfg('n3p112-b0-r1', [1, 1, 2], [1], max_round=1, budget=0),
               tm.Cfg('n4-b0-r2', [1, 1, 1, 1], [4], max_round=2, budget=0)]
    return ex


def sim_cfgs():
    # open adversary, several heights, no schedule reduction
    return [tm.Cfg('sim-n4', [1, 1, 1, 1], [4], max_round=2, max_height=2, nbyz=2, budget=-1, own_first=False,
                   useful_only=False),
            tm.Cfg('sim-n3p112', [1, 1, 2], [2], max_round=2, max_height=2, nbyz=1, budget=-1, own_first=False,
                   useful_only=False),
            tm.Cfg('sim-n4-useful', [1, 1, 1, 1], [1], max_round=3, max_height=3, nbyz=1, budget=6, own_first=False,
                   useful_only=True),
            tm.Cfg('sim-n4-crash', [1, 1, 1, 1], [4], max_round=2, max_height=2, nbyz=1, budget=4, crashes=3,
                   crash_set=[1, 2, 3], own_first=False, useful_only=True)]


WITNESS_GOALS = ['NoDecision', 'NoLock', 'NoRound1']


def run_family(ctx, pid, replay=None, goals=WITNESS_GOALS):
    engine.build_go(ctx, ['csim'])
    if replay is not None:
        rep = engine.run_driver(ctx, 'csim', [replay['trace']], timeout=600)
        engine.collect(ctx, rep, [replay['trace']], 'csim')
        ctx.cov['traces_validated_against_impl'] = 1
        ctx.cov['states'] = ctx.cov['transitions'] = max(1, len(replay['trace']['steps']))
        ctx.sample({'replayed': len(replay['trace']['steps'])})
        return
    quick = ctx.tier == 'quick'
    traces = []
    for cfg in configs(ctx.tier):
        r = tm.check(ctx, cfg, timeout=900 if quick else 5400)
        if r.violation:
            ctx.inconclusive.append('spec invariant %s violated in %s (a defect of the specification or design, to be '
                                    'replayed against the code before it is a verdict)' % (r.violation, cfg.name))
        for g in goals:
            wr, w = tm.witness(ctx, cfg, g, timeout=600)
            if w:
                traces.append(w)
    n_sim = 40 if quick else 400
    for cfg in sim_cfgs():
        r, ts = tm.simulate(ctx, cfg, n_sim, 70 if quick else 120, ctx.seed, timeout=900)
        ctx.add_tlc('Tendermint/' + cfg.name, r, exhaustive=False)
        ctx.log('simulated %s: %d behaviours' % (cfg.name, len(ts)))
        traces += ts
    # binding self-test: corrupt one expected vote
    probe = None
    for t in traces:
        if len(t['steps']) > 3:
            probe = copy.deepcopy(t)
            probe['steps'] = probe['steps'][:4]
            nd = probe['steps'][3]['post']['node']
            first = nd[0] if isinstance(nd, list) else nd[sorted(nd)[0]]
            first['st'] = 8 if first.get('st') != 8 else 1
            break
    if probe:
        rep = engine.run_driver(ctx, 'csim', [probe], timeout=300)
        ctx.cov['binding_selftest'] = 'rejected' if rep.get('failures') else 'ACCEPTED'
        if not rep.get('failures'):
            ctx.inconclusive.append('binding self-test: corrupted trace accepted')
    rep = engine.run_driver(ctx, 'csim', traces, timeout=3000)
    engine.collect(ctx, rep, traces, 'csim')
    ctx.cov['traces_validated_against_impl'] = rep['traces']
    ctx.cov['evaluations'] = rep['steps']
    ctx.cov['impl_checks'] = rep['checks']
    ctx.cov['distinct_nontrivial'] = sum(1 for t in traces if tm.nontrivial(t))
    ctx.cov['rule'] = ('behaviours = TLC counterexamples to reachability goals (decision, lock, round change) + '
                       'tlc -simulate random behaviours of the open-adversary configurations; non-trivial = reaches '
                       'round >= 1, a lock, a decision, or contains a Byzantine message / crash')
    for t in traces[:2]:
        ctx.sample({'id': t['id'], 'actions': ['%s%s' % (s['a'], s['args']) for s in t['steps'][:8]]})
    ctx.assumptions += ['signatures unforgeable; sign-bytes injective (a vote is identified by chain,h,r,type,block id)',
                        'small scope: <=4 validators, rounds<=3, heights<=3; blocks are a single part',
                        'the reactor gossip layer is replaced by the scheduler (any delivery order, duplication, loss)']


def run(ctx, replay=None):
    run_family(ctx, 'C01', replay)
