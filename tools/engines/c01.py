"""C01 agreement: Tendermint.tla exhaustively model-checked (Byzantine budget 0/1/2, unequal powers), plus
witness and simulated behaviours (unbounded Byzantine sends, several heights, crashes) replayed on real
pbft.ConsensusState nodes with every node compared with the spec state after every action."""
from . import tm_common as tm
from .tm_family import Plan, run_family


def plan(tier):
    p = Plan()
    quick = tier == 'quick'
    goals = ['NoDecision', 'NoLock', 'NoRound1']
    p.exhaustive = [(tm.Cfg('n3p112-b1-r1', [1, 1, 2], [1], max_round=1, budget=1), goals)]
    if not quick:
        p.exhaustive += [(tm.Cfg('n4-b0-r1', [1, 1, 1, 1], [4], max_round=1, budget=0), goals),
                         (tm.Cfg('n3p112-b2-r1', [1, 1, 2], [1], max_round=1, budget=2), ['NoCommitFromLaterRound']),
                         (tm.Cfg('n3p112-b0-r1-h2', [1, 1, 2], [2], max_round=1, max_height=2, budget=0), [])]
    n = 30 if quick else 300
    d = 70 if quick else 120
    p.sims = [(tm.Cfg('sim-n4', [1, 1, 1, 1], [4], max_round=2, max_height=2, nbyz=2, budget=-1, own_first=False,
                      useful_only=False), n, d),
              (tm.Cfg('sim-n3p112', [1, 1, 2], [2], max_round=2, max_height=2, nbyz=1, budget=-1, own_first=False,
                      useful_only=False), n, d),
              (tm.Cfg('sim-n4-useful', [1, 1, 1, 1], [1], max_round=3, max_height=3, nbyz=1, budget=6, own_first=False,
                      useful_only=True), n, d + 40),
              (tm.Cfg('sim-n4-crash', [1, 1, 1, 1], [4], max_round=2, max_height=2, nbyz=1, budget=4, crashes=3,
                      crash_set=[1, 2, 3], own_first=False, useful_only=True, torn=True), n, d + 40)]
    # dense crashes (several per height, torn last records): a node that loses what it logged forgets its lock
    p.sims.append((tm.Cfg('sim-n3-crash-dense', [1, 1, 2], [1], max_round=2, max_height=2, nbyz=1, budget=2, crashes=6,
                          crash_set=[2, 3], own_first=False, useful_only=True, torn=True), n, d + 50))
    # total voting power = 2 (mod 3)
    p.sims.append((tm.Cfg('sim-n3p122', [1, 2, 2], [1], max_round=2, max_height=2, nbyz=1, budget=-1, own_first=False,
                          useful_only=False), n, d))
    # validator-set change between heights 1 and 2 (power update of an honest validator; partial synchrony so that heights finish)
    # total voting power divisible by 3: exactly two thirds (Byzantine 1 + heaviest 3 = 4 of 6) decides nothing
    p.sims.append((tm.Cfg('sim-n3p123', [1, 2, 3], [1], max_round=2, max_height=2, nbyz=1, budget=-1, own_first=False,
                          useful_only=True), n, 100))
    p.sims.append((tm.Cfg('sim-n4-power-update', [1, 1, 1, 1], [4], max_round=2, max_height=2, nbyz=1, budget=4, own_first=False,
                          useful_only=True, sync=True, next_power={2: [2, 1, 1, 1]}), n, d + 90))
    # the locking discipline is what Agreement rests on: the directed lock / unlock / relock / stale-polka schedules
    # (tm_scenarios.py; they reach situations the bounded exhaustive configuration and short simulations rarely reach)
    p.scenarios = ['lock_unlock', 'relock_and_pol_proposal', 'locked_without_proposal', 'stale_polka_must_not_unlock',
                   'lock_survives_restart', 'restart_in_height_2', 'skip_round_on_precommits']
    p.rotate_wal = 1   # WAL rotations before most crashes and at random points (invisible to the specification)
    return p


def run(ctx, replay=None):
    run_family(ctx, plan(ctx.tier), replay)
