"""C20 P2P transport and admission: SecretConn.tla, MConn.tla and Admission.tla exhaustively model-checked with TLC;
their behaviours replayed on the real gemmill/p2p code by harness/cmd/p2p:
  SecretConn  every edge of the small state graph (all handshake strategies of the man in the middle, all write /
              read / tampering transitions) plus simulated behaviours of the large configuration, between two real
              SecretConnection endpoints with a frame-aware man in the middle; raw Reads compared step by step, then
              the same scenario consumed with io.ReadFull against an oracle that knows only the written stream; the
              carrier under both ends fragments (at most k bytes per Read) in handshake and data phase;
  MConn       simulated behaviours give the workloads (channel, exact size, Send/TrySend) run concurrently on a real
              MConnection pair (plain with a packet tap, over real SecretConnections, and with one sealed frame
              flipped / dropped / duplicated); the spec's invariants are evaluated on what really arrived;
  Admission   every edge of the decision graph (every attempt in every reachable combination of validator set,
              refuse list and configuration flags) as a real connection attempt against a node whose Switch comes
              from the production prepareP2P and assembleStateMachine."""
import copy
import os
import shutil
import tempfile
import threading

from .. import engine, tlc

SPEC = os.path.join(engine.VERIF, 'specs', 'p2p')
DROP = ('res',)
WORKERS = int(os.environ.get('VERIF_TLC_WORKERS') or 4)
PAR = os.environ.get('VERIF_P2P_PAR') or '6'  # RERUNS below assumes a couple of rounds at most
# development aid: VERIF_C20_ONLY=secretconn|mconn|admission restricts a run to one of the three specifications
ONLY = (os.environ.get('VERIF_C20_ONLY') or '').lower()
SPECNAME = {'secretconn': 'SecretConn', 'mconn': 'MConn', 'admission': 'Admission'}

MC_CAP = {'1': 4096, '2': 3000}
# carrier fragmentation classes: most bytes one Read of the connection under a SecretConnection returns (0 = everything pending)
SEGS = [1, 7, 700, 1041, 1043, 0]
ADM_KEYS = {'q': ['N', 'C', 'V', 'P'], 't': ['N', 'C', 'V', 'P', 'Q']}


def run_p2p(ctx, traces, timeout=2400):
    """Run the driver with a scratch directory that outlives it (the assembled nodes keep files open)."""
    d = tempfile.mkdtemp(prefix='vp2p-')
    try:
        return engine.run_driver(ctx, 'p2p', traces, timeout=timeout, env={'VERIF_P2P_TMP': d, 'VERIF_P2P_PAR': PAR})
    finally:
        shutil.rmtree(d, ignore_errors=True)


def tlc_jobs(ctx, jobs):
    """jobs: [(name, module, cfg, kwargs)] run concurrently; kwargs with 'sim': (num, depth) make it a simulation.
    Returns {name: TLCResult} (for simulations {name: (TLCResult, traces)})."""
    out = {}
    gate = threading.Semaphore(int(os.environ.get('VERIF_C20_JOBS') or 3))

    def one(name, module, cfg, kw):
        with gate:
            run_one(name, module, cfg, kw)

    def run_one(name, module, cfg, kw):
        if 'sim' in kw:
            num, depth = kw['sim']
            r, traces = tlc.simulate_traces(SPEC, module, cfg, num, depth, ctx.seed, drop_vars=DROP, timeout=kw.get('timeout', 900))
            ctx.add_tlc(name, r, exhaustive=False)
            ctx.log('simulated %s: %d behaviours in %.0fs' % (name, len(traces), r.wall))
            out[name] = (r, traces)
            return
        out[name] = engine.tlc_check(ctx, SPEC, module, cfg, name=name, workers=WORKERS, **kw)

    ths = [threading.Thread(target=one, args=j) for j in jobs]
    for t in ths:
        t.start()
    for t in ths:
        t.join()
    for name, r in out.items():
        if isinstance(r, tuple):
            continue
        if r.violation:
            ctx.inconclusive.append('spec invariant %s violated in %s (specification defect, not a verdict about the '
                                    'code)' % (r.violation, name))
    return out


def graph_traces(ctx, r, name, kind, cfg, max_len, only=None):
    g = tlc.parse_dot(os.path.join(r.scratch, 'graph.dot'), drop_vars=DROP)
    paths, cov, want = tlc.edge_cover_paths(g, ctx.rng, max_len=max_len, only=only)
    ctx.log('graph %s: %d states %d edges -> %d paths covering %d/%d edges' % (name, len(g.states), len(g.edges), len(paths), cov, want))
    ctx.cov['graph_edges_covered'] = ctx.cov.get('graph_edges_covered', 0) + cov
    ctx.cov['graph_edges_total'] = ctx.cov.get('graph_edges_total', 0) + len(g.edges)
    out = []
    for k, p in enumerate(paths):
        t = tlc.path_to_steps(g, p)
        t['cfg'] = dict(cfg, kind=kind)
        t['id'] = '%s-%s-%d' % (kind, name, k)
        out.append(t)
    return out, g


def sc_derive(t):
    """Read(b) / Drain(b) are labelled with the buffer size only (their reply is a function of the state, and TLC
    labels edges with constant-bounded arguments only): add the reply class and byte count the specification
    determines, computed from the states before and after the step, as the arguments the driver compares with."""
    pre = t['init']
    for s in t['steps']:
        post = s['post']
        if s['a'] == 'Read' and len(s['args']) == 1:
            n = post['dpos'] - pre['dpos']
            if n > 0:
                r = 'ok'
            elif not pre['wire']:
                r = 'eof'
            elif pre['wire'][0] == -2:
                r = 'ueof'
            else:
                r = 'decrypt'
            s['args'] = [s['args'][0], r, n]
        elif s['a'] == 'Drain' and len(s['args']) == 1:
            b = s['args'][0]
            total = pre['buf']['len']
            s['args'] = [b, (total + b - 1) // b, total]
        pre = post


def sc_nontrivial(t):
    """SecretConn behaviour is non-trivial when the man in the middle acts (handshake strategy other than pure relay,
    or a stream action) or a Read is served from the leftover buffer / spans frames."""
    for s in t['steps']:
        if s['a'] in ('Flip', 'Drop', 'Dup', 'Swap', 'Inject', 'Replay', 'Truncate', 'Drain'):
            return True
        if s['a'] == 'Handshake' and (s['args'][0] != 'eB' or s['args'][1] != 'eA' or s['args'][2] != 'relay' or s['args'][3] != 'relay'):
            return True
        if s['a'] == 'Read' and s['post'].get('buf', {}).get('len', 0) > 0:
            return True
    return False


def mc_nontrivial(t):
    """MConn workload is non-trivial when it uses both channels, a multi-packet message, or a message over the capacity."""
    chans = set()
    for s in t['steps']:
        if s['a'] in ('Send', 'TrySend'):
            chans.add(s['args'][0])
            if s['args'][1] > 1024:
                return True
    return len(chans) > 1


def adm_nontrivial(t):
    """Admission behaviour is non-trivial when the validator set or the refuse list changed before an attempt."""
    return any(s['a'] != 'Connect' for s in t['steps']) and any(s['a'] == 'Connect' for s in t['steps'])


def workload_key(t):
    return tuple((s['a'], s['args'][0], s['args'][1]) for s in t['steps'] if s['a'] in ('Send', 'TrySend'))


def selftests(ctx, sc, mc, adm):
    """Corrupt one expectation per binding; the driver must reject each."""
    probes = []
    for t in sc:
        for si, s in enumerate(t['steps']):
            if s['a'] == 'Read' and s['args'][1] == 'ok' and s['args'][2] > 1:
                p = copy.deepcopy(t)
                p['steps'] = p['steps'][:si + 1]
                p['steps'][si]['args'][2] -= 1
                p['steps'][si]['post']['dpos'] -= 1
                p['id'] = 'selftest-sc-count'
                probes.append(p)
                break
        if probes:
            break
    for t in sc:
        hit = [si for si, s in enumerate(t['steps']) if s['a'] == 'Read' and s['args'][1] == 'decrypt']
        if hit:
            p = copy.deepcopy(t)
            p['steps'] = p['steps'][:hit[0] + 1]
            p['steps'][hit[0]]['args'][1] = 'ok'
            p['steps'][hit[0]]['args'][2] = 1
            p['id'] = 'selftest-sc-tamper'
            probes.append(p)
            break
    for t in sc:
        s = t['steps'][0]
        if s['a'] == 'Handshake' and s['args'][4] == 'errVerify':
            p = copy.deepcopy(t)
            p['steps'] = p['steps'][:1]
            p['steps'][0]['args'][4] = 'ok:peer'
            p['id'] = 'selftest-sc-handshake'
            probes.append(p)
            break
    for t in mc:
        if t['cfg'].get('wrap') == 'plain' and any(s['a'] == 'Send' for s in t['steps']) and \
                all(0 < s['args'][1] <= t['cfg']['Cap'][str(s['args'][0])] for s in t['steps']):
            p = copy.deepcopy(t)
            p['cfg']['selftest'] = 'flip-received'
            p['id'] = 'selftest-mc-content'
            probes.append(p)
            break
    for t in adm:
        hit = [si for si, s in enumerate(t['steps']) if s['a'] == 'Connect' and s['args'][4] == 'refused:ca']
        if hit and t['cfg'].get('path') != 'listener':
            p = copy.deepcopy(t)
            p['steps'] = p['steps'][:hit[0] + 1]
            p['steps'][hit[0]]['args'][4] = 'admitted'
            p['id'] = 'selftest-adm-row'
            probes.append(p)
            break
    want = {'selftest-sc-count', 'selftest-sc-tamper', 'selftest-sc-handshake', 'selftest-mc-content', 'selftest-adm-row'}
    have = {p['id'] for p in probes}
    rep = run_p2p(ctx, probes) if probes else {'failures': []}
    rejected = {f.get('trace_id') for f in (rep.get('failures') or [])}
    res = {k: ('rejected' if k in rejected else ('ACCEPTED' if k in have else 'no-probe')) for k in sorted(want)}
    ctx.cov['binding_selftest'] = res
    for k, v in res.items():
        if v != 'rejected':
            ctx.inconclusive.append('binding self-test %s: corrupted expectation was %s' % (k, v))


RERUNS = 12


def confirm_timeouts(ctx, rep, traces):
    """A failure that is a timeout ("an accepted message / the expected error did not arrive within 20 s") is only
    kept as a verdict when the same behaviour shows it again in isolation: the behaviour is re-run RERUNS times, alone,
    with the wait more than doubled (45 s).  No recurrence => inconclusive (a slow machine must never turn into a
    verdict).  One behaviour per failure key is re-run; the others with that key share its fate."""
    keep = []
    verdict = {}
    for f in (rep.get('failures') or []):
        if f.get('kind') != 'timeout':
            keep.append(f)
            continue
        key = f.get('key')
        if key in verdict:
            continue
        ti = f.get('trace', 0)
        copies = []
        for j in range(RERUNS):
            c = copy.deepcopy(traces[ti])
            c['cfg']['wait_s'] = 45
            c['id'] = '%s-rerun-%d' % (c.get('id'), j)
            copies.append(c)
        r2 = run_p2p(ctx, copies)
        again = sum(1 for g in (r2.get('failures') or []) if g.get('kind') == 'timeout' and g.get('key') == key)
        verdict[key] = again
        ctx.log('timeout %s (%s) re-run alone %d times with a 45 s wait: recurred %d times' % (key, f.get('trace_id'), RERUNS, again))
        if again and f.get('property'):
            f['detail'] = (f.get('detail') or '') + ' [recurred in %d of %d isolated re-runs with a 45 s wait]' % (again, RERUNS)
            keep.append(f)
        elif again:
            f['detail'] = (f.get('detail') or '') + ' [recurred in %d of %d isolated re-runs]' % (again, RERUNS)
            keep.append(f)
        else:
            ctx.notes.append('timeout that did not recur: %s %s %s' % (key, f.get('trace_id'), (f.get('detail') or '')[:300]))
            ctx.inconclusive.append('timeout that did not recur when the behaviour was re-run alone %d times: %s' % (RERUNS, key))
    rep['failures'] = keep


def run(ctx, replay=None):
    engine.build_go(ctx, ['p2p'])
    if replay is not None:
        rep = run_p2p(ctx, [replay['trace']])
        confirm_timeouts(ctx, rep, [replay['trace']])
        engine.collect(ctx, rep, [replay['trace']], 'p2p')
        ctx.cov['traces_validated_against_impl'] = 1
        ctx.cov['states'] = ctx.cov['transitions'] = max(1, len(replay['trace']['steps']))
        ctx.sample({'replayed': len(replay['trace']['steps'])})
        return

    quick = ctx.tier == 'quick'
    seed = ctx.seed
    # ------------------------------------------------------------------ model checking
    jobs = [('SecretConn/q', 'MC_SecretConn.tla', 'MC_SecretConn_q.cfg', dict(dump=True, timeout=1200)),
            ('MConn/q', 'MC_MConn.tla', 'MC_MConn_q.cfg', dict(timeout=1200))]
    if quick:
        jobs.append(('Admission/q', 'MC_Admission.tla', 'MC_Admission_q.cfg', dict(dump=True, timeout=1200)))
    else:
        jobs += [('Admission/c', 'MC_Admission.tla', 'MC_Admission_c.cfg', dict(dump=True, timeout=1200)),
                 ('SecretConn/m', 'MC_SecretConn.tla', 'MC_SecretConn_m.cfg', dict(timeout=2400)),
                 ('SecretConn/t', 'MC_SecretConn.tla', 'MC_SecretConn_t.cfg', dict(timeout=3000)),
                 ('MConn/t', 'MC_MConn.tla', 'MC_MConn_t.cfg', dict(timeout=3000)),
                 ('Admission/t', 'MC_Admission.tla', 'MC_Admission_t.cfg', dict(timeout=3000))]
    jobs += [('SecretConn/sim', 'MC_SecretConn.tla', 'MC_SecretConn_sim.cfg', dict(sim=(120 if quick else 800, 36 if quick else 54), timeout=1800)),
             ('MConn/sim', 'MC_MConn.tla', 'MC_MConn_q.cfg' if quick else 'MC_MConn_t.cfg', dict(sim=(700 if quick else 3000, 40), timeout=1800))]
    if not quick:
        jobs.append(('Admission/sim', 'MC_Admission.tla', 'MC_Admission_t.cfg', dict(sim=(150, 160), timeout=1800)))
    if ONLY:
        jobs = [j for j in jobs if j[0].startswith(SPECNAME[ONLY] + '/')]
        ctx.inconclusive.append('VERIF_C20_ONLY=%s: partial run' % ONLY)
    res = tlc_jobs(ctx, jobs)

    # ------------------------------------------------------------------ behaviours
    sc, mc, adm = [], [], []
    r = res.get('SecretConn/q')
    if r and r.scratch and r.ok:
        sc, _ = graph_traces(ctx, r, 'q', 'secretconn', {}, max_len=60)
    tlc.cleanup(r)
    sims = res.get('SecretConn/sim', (None, []))[1]
    for k, t in enumerate(sims):
        t['cfg'] = {'kind': 'secretconn'}
        t['id'] = 'secretconn-sim-%d-%d' % (seed, k)
        sc.append(t)
    for k, t in enumerate(sc):
        t['cfg']['seed'] = seed * 100003 + k
        t['cfg']['seg0'] = SEGS[(seed * 7 + k) % len(SEGS)]
        sc_derive(t)
    ctx.log('secretconn behaviours ready: %d' % len(sc))

    sims = res.get('MConn/sim', (None, []))[1]
    seen = set()
    for t in sims:
        k = workload_key(t)
        if not k or k in seen:
            continue
        seen.add(k)
        t['steps'] = [s for s in t['steps'] if s['a'] in ('Send', 'TrySend')]
        for s in t['steps']:
            s['post'] = {}
        t['init'] = {}
        mc.append(t)
    ctx.log('mconn workloads: %d distinct of %d simulated' % (len(mc), len(sims)))
    ctx.rng.shuffle(mc)
    mc = mc[:150 if quick else 600]
    # an empty message next to traffic on the other channel is decided by scheduling inside sendMsgPacket: run those
    # workloads several times
    extra = []
    for t in mc:
        st = t['steps']
        if any(s['args'][1] == 0 for s in st) and len({s['args'][0] for s in st}) > 1:
            for j in range(3):
                c = copy.deepcopy(t)
                c['rep'] = j + 1
                extra.append(c)
    mc += extra
    tampers = ['flip', 'drop', 'dup']
    for k, t in enumerate(mc):
        mode = k % 5
        t['cfg'] = {'kind': 'mconn', 'Cap': MC_CAP, 'seed': seed * 100003 + k, 'seg': SEGS[(seed + k) % len(SEGS)],
                    'wrap': 'plain' if mode in (0, 1, 2) else 'secret'}
        if mode == 4:
            t['cfg']['tamper'] = {'op': tampers[(k // 5) % 3], 'frame': (k // 15) % 3}
        t['id'] = 'mconn-sim-%d-%d' % (seed, k)
        if t.pop('rep', 0):
            t['cfg']['wrap'] = 'plain'
            t['cfg'].pop('tamper', None)
    if not quick and mc:
        # the default capacity of a channel (21 MB): one message at the limit, one byte over
        big = 22020096
        for k, (sz, wrap) in enumerate([(big, 'plain'), (big + 1, 'plain'), (big, 'secret'), (big + 1, 'secret')]):
            mc.append({'id': 'mconn-defaultcap-%d' % k, 'init': {}, 'cfg': {'kind': 'mconn', 'Cap': {'1': big, '2': 3000},
                       'seed': seed * 100003 + 7000 + k, 'wrap': wrap, 'rate': 2000000000},
                       'steps': [{'a': 'Send', 'args': [2, 1025, True], 'post': {}}, {'a': 'Send', 'args': [1, sz, True], 'post': {}},
                                 {'a': 'Send', 'args': [2, 3000, True], 'post': {}}]})

    r = res.get('Admission/q' if quick else 'Admission/c')
    if r and r.scratch and r.ok:
        adm, g = graph_traces(ctx, r, 'q' if quick else 'c', 'admission', {'Keys': ADM_KEYS['q'], 'Self': 'N'}, max_len=260)
    tlc.cleanup(r)
    if not quick:
        sims = res.get('Admission/sim', (None, []))[1]
        for k, t in enumerate(sims):
            t['cfg'] = {'kind': 'admission', 'Keys': ADM_KEYS['t'], 'Self': 'N'}
            t['id'] = 'admission-sim-%d-%d' % (seed, k)
            adm.append(t)
    # a few behaviours go again through the node's real TCP listener and listenerRoutine (state changes kept, a sample
    # of the attempts)
    pick = list(adm)
    ctx.rng.shuffle(pick)
    for t in pick[:10 if quick else 60]:
        c = copy.deepcopy(t)
        c['steps'] = [s for s in c['steps'] if s['a'] != 'Connect' or ctx.rng.random() < 25.0 / max(25, len(c['steps']))]
        c['cfg']['path'] = 'listener'
        c['id'] = t['id'] + '-listener'
        adm.append(c)
    for k, t in enumerate(adm):
        t['cfg']['seed'] = seed * 100003 + k
    ctx.log('behaviours: secretconn %d, mconn %d, admission %d (%d connection attempts)' % (
        len(sc), len(mc), len(adm), sum(1 for t in adm for s in t['steps'] if s['a'] == 'Connect')))

    # ------------------------------------------------------------------ binding self-test, then the real run
    selftests(ctx, sc, mc, adm)
    ctx.log('binding self-test: %s' % ctx.cov.get('binding_selftest'))
    # attempts through the listener run in the node's own goroutine, where a panic cannot be attributed to a step (it
    # kills the process, as it would kill a node): they run in a second process, after the attributable paths
    direct = sc + mc + [t for t in adm if t['cfg'].get('path') != 'listener']
    listener = [t for t in adm if t['cfg'].get('path') == 'listener']
    rep = run_p2p(ctx, direct, timeout=1500 if quick else 3000)
    confirm_timeouts(ctx, rep, direct)
    engine.collect(ctx, rep, direct, 'p2p')
    ctx.log('replayed %d behaviours, %d steps, %d failures' % (rep['traces'], rep['steps'], len(rep.get('failures') or [])))
    if listener and not any(f.get('property') for f in (rep.get('failures') or [])):
        rep2 = run_p2p(ctx, listener, timeout=1500)
        confirm_timeouts(ctx, rep2, listener)
        engine.collect(ctx, rep2, listener, 'p2p')
        for k in ('traces', 'steps', 'checks'):
            rep[k] += rep2[k]
        for k, v in (rep2.get('counters') or {}).items():
            rep.setdefault('counters', {})[k] = rep['counters'].get(k, 0) + v
        ctx.log('replayed %d behaviours through the listener, %d failures' % (rep2['traces'], len(rep2.get('failures') or [])))

    cnt = rep.get('counters', {})
    extra = rep.get('extra', {})
    nt = sum(1 for t in sc if sc_nontrivial(t)) + sum(1 for t in mc if mc_nontrivial(t)) + sum(1 for t in adm if adm_nontrivial(t))
    ctx.cov['traces_validated_against_impl'] = rep['traces']
    ctx.cov['evaluations'] = rep['steps']
    ctx.cov['impl_checks'] = rep['checks']
    ctx.cov['distinct_nontrivial'] = nt
    ctx.cov['rule'] = ('behaviours = edge-cover paths of the dumped state graphs (SecretConn/q, Admission/q) + tlc -simulate '
                       'behaviours (distinct random walks; MConn workloads de-duplicated by their Send/TrySend sequence); '
                       'non-trivial = SecretConn: the man in the middle acts or a Read leaves/serves a leftover; MConn: both '
                       'channels, a multi-packet or an over-capacity message; Admission: validator set or refuse list changed '
                       'before an attempt')
    ctx.cov['by_spec'] = {'secretconn': len(sc), 'mconn': len(mc), 'admission': len(adm)}
    ctx.cov['driver_counters'] = cnt
    ctx.cov['distinct_cases'] = {'handshake_strategies': extra.get('hs_strategies', 0), 'secretconn_step_classes': extra.get('sc_cases', 0),
                                 'mconn_send_classes': extra.get('mc_cases', 0), 'admission_rows': extra.get('adm_rows', 0)}
    ctx.cov['exhaustive'] = True
    for t in (sc[:1] + mc[:1] + adm[:1]):
        ctx.sample({'id': t['id'], 'cfg': {k: v for k, v in t['cfg'].items() if k != 'Cap'},
                    'actions': ['%s%s' % (s['a'], s['args']) for s in t['steps'][:8]]})
    ctx.assumptions += [
        'cryptography is symbolic in the specification: curve25519 / secretbox / ed25519 / sha256 / ripemd160 are assumed '
        'unforgeable and collision free; the replay uses the real primitives',
        'the wire under a SecretConnection delivers what the man in the middle forwards, in order (TCP), in pieces of '
        'any size (carrier caps 1, 7, 700, 1041, 1043 bytes per Read or whole writes, from the behaviour and the seed, in '
        'handshake and data phase); the man in the middle acts on whole sealed frames, single bits of a frame, or cuts '
        'the stream',
        'SecretConnection.Read does not latch an error: ending the connection after a failed Read is the consumer\'s duty '
        '(MConnection does, checked with tampered frames under a real MConnection pair)',
        'onReceive must consume the message before returning (the slice is the channel\'s reassembly buffer)',
        'CA admission applies exactly when auth_by_ca is set and not (the announced key is a current validator and '
        'non_validator_node_auth is off), as authByCA implements it',
        'validator-set changes are applied to the node\'s State with the statements ExecBlock uses, not by executing blocks',
    ]
