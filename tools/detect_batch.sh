#!/bin/sh
# usage: tools/detect_batch.sh <id>:<check>[:thorough] ...   (run from a snapshot via `vp run`)
cd "$(dirname "$0")/.."
for x in "$@"; do
  id=$(echo $x | cut -d: -f1); chk=$(echo $x | cut -d: -f2); tier=$(echo $x | cut -d: -f3)
  if [ "$tier" = "thorough" ]; then python3 tools/seeded.py detect $id $chk --thorough; else python3 tools/seeded.py detect $id $chk; fi
done
