#!/bin/sh
# usage: tools/detect_batch.sh <id>:<check> ...   (run from a snapshot via `vp run`)
cd "$(dirname "$0")/.."
for x in "$@"; do
  id=${x%%:*}; chk=${x##*:}
  python3 tools/seeded.py detect $id $chk
done
cat seeded/results.json
