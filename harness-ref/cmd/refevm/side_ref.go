// Reference side of the evmframes driver: go-ethereum v1.8.27 with the Constantinople rule set (every fork up to
// Constantinople active from block 0, EIP-1283 metering as in the in-tree gas table) and ample gas.
package main

import (
	"errors"
	"math/big"

	"github.com/ethereum/go-ethereum/common"

	"github.com/ethereum/go-ethereum/core/state"
	"github.com/ethereum/go-ethereum/core/vm"
	"github.com/ethereum/go-ethereum/params"
)

func sideName() string { return "ref" }
func sideInit()        {}

var constantinople = &params.ChainConfig{ChainID: big.NewInt(1), HomesteadBlock: big.NewInt(0), EIP150Block: big.NewInt(0),
	EIP155Block: big.NewInt(0), EIP158Block: big.NewInt(0), ByzantiumBlock: big.NewInt(0), ConstantinopleBlock: big.NewInt(0),
	PetersburgBlock: new(big.Int).SetUint64(1 << 62), Ethash: new(params.EthashConfig)}

func newEVM(ctx vm.Context, s *state.StateDB, mode string, bud uint64, tr *oogTracer) *vm.EVM {
	cfg := vm.Config{}
	if tr != nil {
		cfg.Debug, cfg.Tracer = true, tr
	}
	return vm.NewEVM(ctx, s, constantinople, cfg)
}

// the reference has no budget: nothing is reported as used
func budgetLeft(e *vm.EVM, bud uint64) uint64 { return bud }

// the core package of the reference cannot be built offline (its rpc dependencies are not in the module cache);
// core.ApplyMessage is exercised on the in-tree side only
func applyMessage(evm *vm.EVM, s *state.StateDB, from, to common.Address, input []byte) ([]byte, error) {
	return nil, errors.New("not available on the reference side")
}
