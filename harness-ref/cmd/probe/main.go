package main

import (
	"fmt"
	"math/big"

	"github.com/ethereum/go-ethereum/common"
	"github.com/ethereum/go-ethereum/core/state"
	"github.com/ethereum/go-ethereum/core/vm"
	"github.com/ethereum/go-ethereum/ethdb"
	"github.com/ethereum/go-ethereum/params"
	"github.com/ethereum/go-ethereum/trie"
	"verifref/mbt"
)

func main() {
	db := ethdb.NewMemDatabase()
	t, _ := trie.New([32]byte{}, trie.NewDatabase(db))
	t.Update([]byte("a"), []byte("b"))
	fmt.Println(t.Hash().Hex())
	s, _ := state.New([32]byte{}, state.NewDatabase(db))
	a := common.BytesToAddress([]byte{0xaa})
	s.SetCode(a, []byte{0x60, 1, 0x60, 0, 0x52, 0x60, 32, 0x60, 0, 0xf3})
	ctx := vm.Context{CanTransfer: func(vm.StateDB, common.Address, *big.Int) bool { return true }, Transfer: func(vm.StateDB, common.Address, common.Address, *big.Int) {},
		GetHash: func(uint64) common.Hash { return common.Hash{} }, BlockNumber: big.NewInt(1), Time: big.NewInt(1), Difficulty: big.NewInt(1), GasLimit: 1 << 62, GasPrice: big.NewInt(0)}
	evm := vm.NewEVM(ctx, s, params.AllEthashProtocolChanges, vm.Config{})
	ret, left, err := evm.Call(vm.AccountRef(common.Address{}), a, nil, 1000000, big.NewInt(0))
	fmt.Println(ret, left, err, mbt.Int(3))
}
