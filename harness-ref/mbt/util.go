package mbt

import "bytes"

func bytesReader(b []byte) *bytes.Reader { return bytes.NewReader(b) }
