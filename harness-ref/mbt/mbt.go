// Package mbt holds what every replay driver shares: the JSON form of TLC behaviours,
// canonical comparison of projected state, panic capture and the result report.
package mbt

import (
	"bufio"
	"encoding/json"
	"fmt"
	"os"
	"reflect"
	"runtime/debug"
	"sort"
)

// Step is one spec action with the spec state after it.
type Step struct {
	A    string                 `json:"a"`
	Args []interface{}          `json:"args"`
	Post map[string]interface{} `json:"post"`
}

// Trace is one behaviour of the specification.
type Trace struct {
	ID    string                 `json:"id,omitempty"`
	Cfg   map[string]interface{} `json:"cfg,omitempty"`
	Init  map[string]interface{} `json:"init"`
	Steps []Step                 `json:"steps"`
}

// Failure describes one disagreement between implementation and specification.
type Failure struct {
	Trace    int         `json:"trace"`
	TraceID  string      `json:"trace_id,omitempty"`
	Step     int         `json:"step"`
	Action   string      `json:"action"`
	Kind     string      `json:"kind"` // mismatch | panic | property | error
	Property bool        `json:"property"` // true when the observation itself contradicts the property
	Key      string      `json:"key,omitempty"` // stable identifier for known-findings matching
	Detail   string      `json:"detail"`
	Want     interface{} `json:"want,omitempty"`
	Got      interface{} `json:"got,omitempty"`
}

// Report is what a driver prints on stdout (one JSON document).
type Report struct {
	Traces   int               `json:"traces"`
	Steps    int               `json:"steps"`
	Checks   int               `json:"checks"`
	Failures []Failure         `json:"failures"`
	Counters map[string]int    `json:"counters,omitempty"`
	Notes    []string          `json:"notes,omitempty"`
	Extra    map[string]interface{} `json:"extra,omitempty"`
}

func NewReport() *Report { return &Report{Counters: map[string]int{}, Extra: map[string]interface{}{}} }

func (r *Report) Count(k string) { r.Counters[k]++ }

func (r *Report) Fail(f Failure) {
	if len(r.Failures) < 200 {
		r.Failures = append(r.Failures, f)
	}
	r.Counters["failures"]++
}

func (r *Report) Emit() {
	enc := json.NewEncoder(os.Stdout)
	if err := enc.Encode(r); err != nil {
		fmt.Fprintln(os.Stderr, "emit:", err)
		os.Exit(2)
	}
}

// LoadTraces reads a file holding either a JSON array of traces or one trace per line.
func LoadTraces(path string) ([]Trace, error) {
	f, err := os.Open(path)
	if err != nil {
		return nil, err
	}
	defer f.Close()
	br := bufio.NewReaderSize(f, 1<<20)
	c, err := br.Peek(1)
	if err != nil {
		return nil, err
	}
	var out []Trace
	dec := json.NewDecoder(br)
	dec.UseNumber()
	if c[0] == '[' {
		if err := dec.Decode(&out); err != nil {
			return nil, err
		}
		return out, nil
	}
	for dec.More() {
		var t Trace
		if err := dec.Decode(&t); err != nil {
			return nil, err
		}
		out = append(out, t)
	}
	return out, nil
}

// Canon converts any Go value into canonical JSON-like data (numbers as int64 where integral).
func Canon(v interface{}) interface{} {
	b, err := json.Marshal(v)
	if err != nil {
		panic(err)
	}
	var out interface{}
	d := json.NewDecoder(bytesReader(b))
	d.UseNumber()
	if err := d.Decode(&out); err != nil {
		panic(err)
	}
	return norm(out)
}

func norm(v interface{}) interface{} {
	switch x := v.(type) {
	case json.Number:
		if i, err := x.Int64(); err == nil {
			return i
		}
		f, _ := x.Float64()
		return f
	case float64:
		if x == float64(int64(x)) {
			return int64(x)
		}
		return x
	case int:
		return int64(x)
	case []interface{}:
		o := make([]interface{}, len(x))
		for i := range x {
			o[i] = norm(x[i])
		}
		return o
	case map[string]interface{}:
		o := make(map[string]interface{}, len(x))
		for k, e := range x {
			o[k] = norm(e)
		}
		return o
	}
	return v
}

// Norm normalises decoded JSON (json.Number etc.) for comparison.
func Norm(v interface{}) interface{} { return norm(v) }

// Equal compares two canonical values.
func Equal(a, b interface{}) bool { return reflect.DeepEqual(norm(a), norm(b)) }

// SortedInts returns a sorted copy as []interface{} of int64 (the JSON form of a TLA+ set of ints).
func SortedInts(xs []int) []interface{} {
	c := append([]int(nil), xs...)
	sort.Ints(c)
	o := make([]interface{}, len(c))
	for i, x := range c {
		o[i] = int64(x)
	}
	return o
}

// SortedStrings returns the JSON form of a TLA+ set of strings.
func SortedStrings(xs []string) []interface{} {
	c := append([]string(nil), xs...)
	sort.Strings(c)
	o := make([]interface{}, len(c))
	for i, x := range c {
		o[i] = x
	}
	return o
}

// Int reads an argument that may be json.Number / float64 / int64.
func Int(v interface{}) int {
	switch x := v.(type) {
	case json.Number:
		i, _ := x.Int64()
		return int(i)
	case float64:
		return int(x)
	case int64:
		return int(x)
	case int:
		return x
	}
	panic(fmt.Sprintf("not an int: %#v", v))
}

func Str(v interface{}) string {
	s, ok := v.(string)
	if !ok {
		panic(fmt.Sprintf("not a string: %#v", v))
	}
	return s
}

// Catch runs f and returns the panic value and stack, if any.
func Catch(f func()) (p interface{}, stack string) {
	defer func() {
		if r := recover(); r != nil {
			p = r
			stack = string(debug.Stack())
		}
	}()
	f()
	return nil, ""
}

// DiffKeys lists the keys on which two maps differ.
func DiffKeys(want, got map[string]interface{}) []string {
	var ks []string
	seen := map[string]bool{}
	for k, w := range want {
		seen[k] = true
		if g, ok := got[k]; !ok || !Equal(w, g) {
			ks = append(ks, k)
		}
	}
	for k := range got {
		if !seen[k] {
			ks = append(ks, k)
		}
	}
	sort.Strings(ks)
	return ks
}
