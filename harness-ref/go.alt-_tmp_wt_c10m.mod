module verifref

go 1.12

// Reference go-ethereum only (never the in-tree copy): the two cannot be linked together.
// v1.8.27 has no go.mod, so its dependencies are pinned to the versions /repo/go.mod uses.
require (
	github.com/allegro/bigcache v1.2.0
	github.com/aristanetworks/goarista v0.0.0-20180424004133-70dca2f27708
	github.com/ethereum/go-ethereum v1.8.27
	github.com/go-stack/stack v1.8.0
	github.com/golang/snappy v0.0.0-20180518054509-2e65f85255db // indirect
	github.com/hashicorp/golang-lru v0.5.0
	github.com/syndtr/goleveldb v0.0.0-20170725064836-b89cc31ef797
	golang.org/x/crypto v0.0.0-20190426145343-a29dc8fdc734
	golang.org/x/sys v0.0.0-20190602015325-4c4f7f33c9ed
)
