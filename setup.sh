#!/bin/sh
# Offline setup: type-check every specification and pre-build the Go drivers against /repo (tag verif).
set -e
cd "$(dirname "$0")"
export GOFLAGS=-mod=mod GOPROXY=off GOSUMDB=off GOTOOLCHAIN=local
python3 - <<'PY'
import glob, os, shutil, subprocess, sys, tempfile
sys.path.insert(0, '.')
from tools import tlc
# all specification files in one flat scratch directory (modules of one area may EXTEND modules of another)
d = tempfile.mkdtemp(prefix='vsany-')
mods = []
for f in sorted(glob.glob('specs/*/*.tla')):
    shutil.copy(f, d)
    mods.append(os.path.basename(f))
bad = 0
for m in mods:
    needs_input = 'ndJsonDeserialize' in open(os.path.join(d, m)).read()
    p = subprocess.run(['java', '-cp', tlc.JAR, 'tla2sany.SANY', m], cwd=d, stdout=subprocess.PIPE, stderr=subprocess.STDOUT, text=True)
    ok = p.returncode == 0 and 'Semantic errors' not in p.stdout and '*** Errors' not in p.stdout and 'Fatal errors' not in p.stdout \
        and 'Parse Error' not in p.stdout
    print(('ok   ' if ok else 'FAIL ') + m)
    if not ok:
        print(p.stdout[-1500:]); bad += 1
shutil.rmtree(d, ignore_errors=True)
sys.exit(1 if bad else 0)
PY
cp /repo/go.sum harness/go.sum
mkdir -p harness/bin
for d in harness/cmd/*/; do
  n=$(basename "$d")
  (cd harness && go build -tags verif -o bin/$n ./cmd/$n) && echo "built $n"
done
# reference go-ethereum drivers (second module importing only github.com/ethereum/go-ethereum v1.8.27)
python3 -c "from tools.engines import c11; c11.sync_ref('statedb','refstatedb'); c11.sync_ref('evmframes','refevm')"
cp /repo/go.sum harness-ref/go.sum
mkdir -p harness-ref/bin
for d in harness-ref/cmd/*/; do
  n=$(basename "$d")
  (cd harness-ref && go build -o bin/$n ./cmd/$n) && echo "built ref $n"
done
