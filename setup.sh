#!/bin/sh
# Offline setup: type-check every specification and pre-build the Go drivers against /repo (tag verif).
set -e
cd "$(dirname "$0")"
export GOFLAGS=-mod=mod GOPROXY=off GOSUMDB=off GOTOOLCHAIN=local
python3 - <<'PY'
import glob, os, sys
sys.path.insert(0, '.')
from tools import tlc
bad = 0
for d in sorted(glob.glob('specs/*')):
    for f in sorted(glob.glob(os.path.join(d, '*.tla'))):
        ok, out = tlc.sany(d, os.path.basename(f))
        print(('ok   ' if ok else 'FAIL ') + f)
        if not ok:
            print(out[-2000:]); bad += 1
sys.exit(1 if bad else 0)
PY
cp /repo/go.sum harness/go.sum
mkdir -p harness/bin
for d in harness/cmd/*/; do
  n=$(basename "$d")
  (cd harness && go build -tags verif -o bin/$n ./cmd/$n) && echo "built $n"
done
